package props

import (
	"fmt"
	"github.com/pip-services3-gox/pip-services3-expressions-gox/calculator"
	"regexp"
	"strings"
	"testing"

	cerrors "github.com/pip-services3-gox/pip-services3-commons-gox/errors"
	cparsers "github.com/pip-services3-gox/pip-services3-expressions-gox/calculator/parsers"
	"github.com/pip-services3-gox/pip-services3-expressions-gox/tokenizers"
	"pgregory.net/rapid"
	"verif/pbt/evid"
)

// C02 — the parser accepts exactly the expression grammar and rejects everything else.

type c02Case struct {
	Toks     []etok `json:"toks"`
	ViaToken bool   `json:"viaTokens"` // feed through ParseTokens instead of ParseString
	// Spelt: the same token sequence written with other separators (none where legal, blanks, line breaks, comments
	// with arbitrary bodies), keyword letter case and <> / != spelling; it must get the same verdict and program
	Spelt string `json:"spelt,omitempty"`
}

// libTokens builds the tokenizer-level token list for ParseTokens (values as the parser's own tokenizer
// configuration delivers them: strings decoded).
func libTokens(toks []etok) []*tokenizers.Token {
	var out []*tokenizers.Token
	for i, t := range toks {
		switch {
		case t.K == "c" && (strings.EqualFold(t.S, "TRUE") || strings.EqualFold(t.S, "FALSE")):
			out = append(out, tokenizers.NewToken(tokenizers.Keyword, t.S, 1, i+1))
		case t.K == "c" && strings.HasPrefix(t.S, "'"):
			out = append(out, tokenizers.NewToken(tokenizers.Quoted, literalVal(t.S).S, 1, i+1))
		case t.K == "c" && strings.ContainsAny(t.S, ".eE"):
			out = append(out, tokenizers.NewToken(tokenizers.Float, t.S, 1, i+1))
		case t.K == "c":
			out = append(out, tokenizers.NewToken(tokenizers.Integer, t.S, 1, i+1))
		case t.K == "e":
			out = append(out, tokenizers.NewToken(tokenizers.Eof, "", 1, i+1))
		case t.K == "i":
			out = append(out, tokenizers.NewToken(tokenizers.Word, identName(t.S), 1, i+1))
		case wordy(t):
			out = append(out, tokenizers.NewToken(tokenizers.Keyword, t.S, 1, i+1))
		default:
			out = append(out, tokenizers.NewToken(tokenizers.Symbol, t.S, 1, i+1))
		}
		if len(toks)%2 == 0 {
			// a tokenizer that keeps blanks and comments delivers them in the list; the parser passes over them
			if i%2 == 0 {
				out = append(out, tokenizers.NewToken(tokenizers.Whitespace, " ", 1, i+1))
			} else {
				out = append(out, tokenizers.NewToken(tokenizers.Comment, "/* c */", 1, i+1))
			}
		}
	}
	return out
}

func checkC02(c c02Case) *evid.Fail { return checkC02With(cparsers.NewExpressionParser(), c) }

func checkC02With(p *cparsers.ExpressionParser, c c02Case) *evid.Fail {
	if len(c.Toks) == 0 {
		return nil
	}
	src := spellPlain(c.Toks)
	tree, failAt := refParse(c.Toks)
	var err error
	callerList := libTokens(c.Toks) // the caller's list object: handed over twice, never changed by the parser
	listBefore := append([]*tokenizers.Token{}, callerList...)
	if g := guard(func() {
		if c.ViaToken {
			err = p.ParseTokens(callerList)
		} else {
			err = p.ParseString(src)
		}
	}); g != nil {
		if tree == nil {
			g.Sig = "rejects-by-" + g.Sig
		}
		g.Msg = fmt.Sprintf("input %q: %s", src, g.Msg)
		return g
	}
	ctx := func() string {
		at := func(i int) string {
			if i < 0 {
				return "^"
			}
			if i >= len(c.Toks) {
				return "$"
			}
			t := c.Toks[i]
			switch t.K {
			case "c":
				return "const"
			case "i":
				return "ident"
			}
			return t.S
		}
		return fmt.Sprintf("after[%s]at[%s]", at(failAt-1), at(failAt))
	}
	// submitting the very same input again to the same parser must give the same verdict and program
	var err2 error
	first := actualRPN(p.ResultTokens())
	if g := guard(func() {
		if c.ViaToken {
			err2 = p.ParseTokens(callerList)
		} else {
			err2 = p.ParseString(" " + src + " ")
		}
	}); g != nil {
		g.Sig = "resubmission:" + g.Sig
		g.Msg = fmt.Sprintf("input %q submitted twice: %s", src, g.Msg)
		return g
	}
	if c.ViaToken {
		same := len(callerList) == len(listBefore)
		for i := 0; same && i < len(listBefore); i++ {
			same = callerList[i] == listBefore[i]
		}
		if !same {
			return evid.F("callers-token-list-changed", "input %q: ParseTokens changed the list it was given (%d tokens before, %d after)", src, len(listBefore), len(callerList))
		}
	}
	if c.ViaToken && len(src)%4 == 0 {
		// the text made of the values of that list (no separators), submitted to the same parser right after the list:
		// it is parsed as the text it is - what a parser that never saw the list makes of it
		var concat strings.Builder
		for _, t := range callerList {
			concat.WriteString(t.Value())
		}
		var errU, errF error
		var progU, progF []string
		if g := guard(func() {
			errU = p.ParseString(concat.String())
			progU = actualRPN(p.ResultTokens())
			fresh := cparsers.NewExpressionParser()
			errF = fresh.ParseString(concat.String())
			progF = actualRPN(fresh.ResultTokens())
			err2 = p.ParseTokens(callerList) // back to the list for the checks below
		}); g != nil {
			g.Sig = "text-after-tokens:" + g.Sig
			g.Msg = fmt.Sprintf("token list %q, then its text %q: %s", src, concat.String(), g.Msg)
			return g
		}
		if (errU == nil) != (errF == nil) || (errU == nil && strings.Join(progU, " ") != strings.Join(progF, " ")) {
			return evid.F("text-after-tokens-differs", "a parser that was given the token list %q and then the text %q gives %v %v for the text; a parser that never saw the list gives %v %v", src, concat.String(), errU, progU, errF, progF)
		}
	}
	if c.Spelt != "" {
		p3 := p
		var err3 error
		if g := guard(func() { err3 = p3.ParseString(c.Spelt) }); g != nil {
			g.Msg = fmt.Sprintf("input %q: %s", c.Spelt, g.Msg)
			return g
		}
		if (err3 == nil) != (err2 == nil) || (err3 == nil && strings.Join(first, " ") != strings.Join(actualRPN(p3.ResultTokens()), " ")) {
			return evid.F("spelling-changes-verdict", "tokens %q give %v %v; written as %q they give %v %v", src, err2, first, c.Spelt, err3, actualRPN(p3.ResultTokens()))
		}
		// back to the plain spelling for the checks below
		if g := guard(func() { err2 = p.ParseString(src) }); g != nil {
			return g
		}
	}
	if (err == nil) != (err2 == nil) || (err == nil && strings.Join(first, " ") != strings.Join(actualRPN(p.ResultTokens()), " ")) {
		return evid.F("resubmission-differs", "input %q: first submission gives %v %v, the second on the same parser gives %v %v", src, err, first, err2, actualRPN(p.ResultTokens()))
	}
	// the other ways of submitting the same input (the setters of the parser and of the calculator), each used twice
	// in a row on one object, give the verdict ParseString / ParseTokens gave
	{
		verdicts := map[string]error{}
		if g := guard(func() {
			p2 := p // the parser that has just parsed this input twice (building another one costs as much as ten parses)
			var calc *calculator.ExpressionCalculator
			if len(src)%3 == 0 { // a calculator is costly to build: a third of the inputs go through it
				calc = calculator.NewExpressionCalculator()
			}
			for round := 1; round <= 2; round++ {
				if c.ViaToken {
					verdicts[fmt.Sprintf("parser.SetOriginalTokens #%d", round)] = p2.SetOriginalTokens(libTokens(c.Toks))
				} else {
					verdicts[fmt.Sprintf("parser.SetExpression #%d", round)] = p2.SetExpression(src)
					if calc != nil {
						verdicts[fmt.Sprintf("calculator.SetExpression #%d", round)] = calc.SetExpression(src)
					}
				}
			}
		}); g != nil {
			g.Sig = "entry-point:" + g.Sig
			g.Msg = fmt.Sprintf("input %q through the setters: %s", src, g.Msg)
			return g
		}
		for _, name := range []string{"parser.SetOriginalTokens #1", "parser.SetOriginalTokens #2", "parser.SetExpression #1", "parser.SetExpression #2", "calculator.SetExpression #1", "calculator.SetExpression #2"} {
			if e, ok := verdicts[name]; ok && (e == nil) != (err == nil) {
				return evid.F("entry-point-verdict-differs", "input %q: %s gives %v, the parse call gave %v", src, name, e, err)
			}
		}
	}
	if tree == nil {
		if err == nil {
			return evid.F("accepts-invalid:"+ctx(), "input %q is not a sentence of the grammar (first bad token #%d) but was accepted and compiled to %v",
				src, failAt, actualRPN(p.ResultTokens()))
		}
		ae, ok := err.(*cerrors.ApplicationError)
		if !ok || ae == nil {
			return evid.F("reject-error-type", "input %q rejected with a %T, not an ApplicationError", src, err)
		}
		if ae.Code == "" {
			return evid.F("reject-without-code", "input %q rejected without an error code: %v", src, err)
		}
		// the position quoted in the message points at the offending token (C12's last sentence): with single
		// blanks between tokens on one line the column of token k is known
		if m := errPosRe.FindStringSubmatch(ae.Message); m != nil && !c.ViaToken && failAt < len(c.Toks) && !hasJunk(c.Toks) {
			col := 1
			for _, t := range c.Toks[:failAt] {
				col += len([]rune(t.S)) + 1
			}
			if m[1] != "1" || m[2] != fmt.Sprint(col) {
				return evid.F("error-position:"+ae.Code, "input %q: the error %q quotes %s:%s, the offending token #%d %q is at 1:%d", src, ae.Message, m[1], m[2], failAt, c.Toks[failAt].S, col)
			}
		}
		return nil
	}
	if err != nil {
		code := ""
		if ae, ok := err.(*cerrors.ApplicationError); ok && ae != nil {
			code = ae.Code
		}
		return evid.F("rejects-valid:"+code, "input %q is a sentence of the grammar but was rejected: %v", src, err)
	}
	want := expectedRPN(postOrder(tree, nil))
	got := actualRPN(p.ResultTokens())
	if strings.Join(want, " ") != strings.Join(got, " ") {
		return evid.F("wrong-post-order", "input %q compiled to %v, the syntax tree's post-order is %v", src, got, want)
	}
	return nil
}

var errPosRe = regexp.MustCompile(`at line (\d+) and column (\d+)`)

// hasJunk: sequences with characters outside the language are rejected by the lexical pass, which may quote a
// later position than the first syntactic offender; they are left out of the position check.
func hasJunk(toks []etok) bool {
	for _, t := range toks {
		if t.K == "o" {
			switch t.S {
			case "😀", "@", "$", "\uffff", "𝑥", "#", "\u00a0", "\u0085":
				return true
			}
		}
	}
	return false
}

func init() { regReplay("C02", checkC02) }

// the 17 token classes of the exhaustive enumeration ('-' is the sign-capable additive operator; 'a (' makes a call)
var c02Alphabet = []etok{{"i", "\"NULL\""}, {"c", "1"}, {"i", "a"}, {"o", "("}, {"o", ")"}, {"o", "["}, {"o", "]"}, {"o", ","}, {"o", "-"}, {"o", "*"}, {"o", "^"}, {"o", "="},
	{"o", "AND"}, {"o", "NOT"}, {"o", "IS"}, {"o", "NULL"}, {"o", "IN"}, {"o", "LIKE"}}

// full vocabulary for the mutation test
var c02Vocabulary = []etok{{"c", "1"}, {"c", "2.5"}, {"c", "'s'"}, {"c", "TRUE"}, {"c", "FALSE"}, {"i", "a"}, {"i", "b"}, {"i", "f"}, {"i", "\"q i\""},
	{"i", "\" \""}, {"i", "\"\t\""}, {"i", "\"null\""}, {"i", "\"IS\""}, {"i", "\"not\""}, {"i", "\"and\""}, {"i", "\"In\""}, {"i", "\"like\""}, {"i", "\"true\""}, {"c", "'NULL'"}, {"c", "'and'"},
	// literals and quoted names whose content begins or ends with an escaped quote, or is nothing but one
	{"c", "''"}, {"c", "''''"}, {"c", "'''a'"}, {"c", "'a'''"}, {"c", "'''a'''"}, {"i", "\"\"\"x\""}, {"i", "\"6\"\"\""}, {"i", "\"\"\"\""},
	{"o", "😀"}, {"o", "@"}, {"o", "$"}, {"o", "\uffff"}, {"o", "𝑥"}, {"o", "#"},
	// characters that look blank but are not whitespace of the expression language (only U+0000..U+0020 is)
	{"o", "\u00a0"}, {"o", "\u0085"},
	{"o", "("}, {"o", ")"}, {"o", "["}, {"o", "]"}, {"o", ","}, {"o", "+"}, {"o", "-"}, {"o", "*"}, {"o", "/"}, {"o", "%"}, {"o", "^"},
	{"o", "="}, {"o", "<>"}, {"o", ">"}, {"o", "<"}, {"o", ">="}, {"o", "<="}, {"o", "<<"}, {"o", ">>"},
	{"o", "AND"}, {"o", "OR"}, {"o", "XOR"}, {"o", "NOT"}, {"o", "IS"}, {"o", "IN"}, {"o", "NULL"}, {"o", "LIKE"}}

const c02Rule = "token sequence (written with single blanks, or fed as a token list); the reference recogniser decides: a sentence must be accepted and compiled to the post-order of its syntax tree, anything else must be rejected with an ApplicationError carrying a code (no panic); non-trivial = rejected with a valid prefix of >= 2 tokens, or accepted with >= 2 operators; distinct by token sequence"

func c02Classify(toks []etok) (bool, string) {
	tree, failAt := refParse(toks)
	if tree == nil {
		return failAt >= 2, "rejected"
	}
	ops := 0
	for _, t := range toks {
		if t.K == "o" && t.S != "(" && t.S != ")" && t.S != "," {
			ops++
		}
	}
	return ops >= 2, "accepted"
}

func tokKey(toks []etok) string {
	var sb strings.Builder
	for _, t := range toks {
		sb.WriteString(t.K)
		sb.WriteString(t.S)
		sb.WriteByte(0)
	}
	return sb.String()
}

func TestC02_Exhaustive(t *testing.T) {
	rec := evid.New("C02", "TestC02_Exhaustive", "C02", c02Rule)
	rec.Exhaustive = true
	rec.DupFree = true
	defer finish(t, rec)
	maxLen := pick(5, 6)
	rec.Bounds = fmt.Sprintf("every token sequence of length 1..%d over the 18-class alphabet {1 a \"NULL\" ( ) [ ] , - * ^ = AND NOT IS NULL IN LIKE}; those of length <= 4 also through ParseTokens", maxLen)
	alpha := make([]string, len(c02Alphabet))
	byName := map[string]etok{}
	for i, a := range c02Alphabet {
		alpha[i] = a.S
		byName[a.S] = a
	}
	pool := make(chan *cparsers.ExpressionParser, 64)
	enumStrings(alpha, maxLen, false, func(parts []string) {
		toks := make([]etok, len(parts))
		for i, p := range parts {
			toks[i] = byName[p]
		}
		var p *cparsers.ExpressionParser
		select {
		case p = <-pool:
		default:
			p = cparsers.NewExpressionParser()
		}
		modes := 1
		if len(toks) <= 4 {
			modes = 2
		}
		for m := 0; m < modes; m++ {
			c := c02Case{Toks: toks, ViaToken: m == 1}
			nt, lab := c02Classify(toks)
			rec.Case(fmt.Sprintf("%d%s", m, tokKey(toks)), nt, func() interface{} { return spellPlain(toks) }, lab)
			if f := checkC02With(p, c); f != nil {
				// a reused parser is only an optimisation: the verdict comes from a fresh one
				if ff := checkC02(c); ff != nil {
					rec.Fail(ff, c)
				} else {
					rec.Fail(evid.F("reused-instance-only:"+f.Sig, "%s", f.Msg), c)
				}
			}
		}
		select {
		case pool <- p:
		default:
		}
	})
	requireLabels(t, rec, "accepted", "rejected")
}

func c02GenCfg() *genCfg {
	return &genCfg{vars: []string{"a", "b", "\"q i\"", "\"null\"", "\"not\"", "\"IS\""}, funcs: []string{"f", "g", "\"in\""}, consts: func(t *rapid.T) string {
		return rapid.SampledFrom([]string{"1", "2.5", "'s'", "TRUE", "FALSE", "0", ".5", "1e3"}).Draw(t, "const")
	}, maxArgs: 3}
}

func TestC02_RapidMutation(t *testing.T) {
	rec := evid.New("C02", "TestC02_RapidMutation", "C02", c02Rule+"; rapid: generated valid expressions of any size with 0-3 token-level mutations (insert, delete, replace, swap neighbours, duplicate) over the full vocabulary")
	defer finish(t, rec)
	cfg := c02GenCfg()
	runRapid(t, pick(40000, 300000), 2, func(rt *rapid.T) {
		tree := genSized(rt, cfg, rapid.SampledFrom([]int{0, 1, 2, 3, 4, 6, 8, 12, 20, 40}).Draw(rt, "size"))
		style := rapid.IntRange(0, 2).Draw(rt, "style")
		toks := printTokens(tree, style, func() bool { return rapid.IntRange(0, 5).Draw(rt, "xp") == 0 })
		nm := rapid.IntRange(0, 3).Draw(rt, "mutations")
		var muts []string
		for m := 0; m < nm && len(toks) > 0; m++ {
			i := rapid.IntRange(0, len(toks)-1).Draw(rt, "at")
			switch rapid.IntRange(0, 4).Draw(rt, "mut") {
			case 0: // insert
				v := rapid.SampledFrom(c02Vocabulary).Draw(rt, "ins")
				toks = append(toks[:i], append([]etok{v}, toks[i:]...)...)
				muts = append(muts, "insert")
			case 1: // delete
				toks = append(append([]etok{}, toks[:i]...), toks[i+1:]...)
				muts = append(muts, "delete")
			case 2: // replace
				toks = append([]etok{}, toks...)
				toks[i] = rapid.SampledFrom(c02Vocabulary).Draw(rt, "rep")
				muts = append(muts, "replace")
			case 3: // swap neighbours
				if i+1 < len(toks) {
					toks = append([]etok{}, toks...)
					toks[i], toks[i+1] = toks[i+1], toks[i]
					muts = append(muts, "swap")
				}
			case 4: // duplicate
				toks = append(toks[:i+1], append([]etok{toks[i]}, toks[i+1:]...)...)
				muts = append(muts, "duplicate")
			}
		}
		if len(toks) == 0 {
			rt.Skip("empty")
		}
		c := c02Case{Toks: toks, ViaToken: rapid.IntRange(0, 3).Draw(rt, "via") == 0}
		if !c.ViaToken && !hasJunk(toks) {
			c.Spelt = spellRandom(rt, toks)
		}
		if c.ViaToken && rapid.IntRange(0, 3).Draw(rt, "eof") == 0 {
			at := rapid.IntRange(0, len(toks)).Draw(rt, "eofat")
			toks = append(append(append([]etok{}, toks[:at]...), etok{"e", ""}), toks[at:]...)
			c.Toks = toks
		}
		nt, lab := c02Classify(toks)
		labels := []string{lab, fmt.Sprintf("mutations:%d", len(muts))}
		for _, m := range muts {
			labels = append(labels, "mut:"+m)
		}
		rec.Case(tokKey(toks), nt, func() interface{} { return spellPlain(toks) }, labels...)
		if f := checkC02(c); f != nil {
			if rec.Fail(f, c) {
				rt.Fatalf("%v", f)
			}
		}
	})
	requireLabels(t, rec, "accepted", "rejected", "mut:insert", "mut:delete", "mut:replace", "mut:swap", "mut:duplicate")
}
