package props

import "testing"

// One native fuzz target per rapid property (see fuzzRapid in common_test.go): the thorough tier runs each of them
// coverage-guided on all cores for VERIF_FUZZ_SECONDS_GEN seconds.

func FuzzC01_Rapid(f *testing.F)            { fuzzRapid(f, TestC01_Rapid, 0) }
func FuzzC02_RapidMutation(f *testing.F)    { fuzzRapid(f, TestC02_RapidMutation, 0) }
func FuzzC03_RapidCalls(f *testing.F)       { fuzzRapid(f, TestC03_RapidCalls, 0) }
func FuzzC03_RapidExpressions(f *testing.F) { fuzzRapid(f, TestC03_RapidExpressions, 0) }
func FuzzC03_RapidMalformedExpressions(f *testing.F) {
	fuzzRapid(f, TestC03_RapidMalformedExpressions, 0)
}
func FuzzC03_RapidTemplates(f *testing.F)  { fuzzRapid(f, TestC03_RapidTemplates, 0) }
func FuzzC03_RapidTokenLists(f *testing.F) { fuzzRapid(f, TestC03_RapidTokenLists, 0) }
func FuzzC03_RapidTokenizersAndDecoders(f *testing.F) {
	fuzzRapid(f, TestC03_RapidTokenizersAndDecoders, 0)
}
func FuzzC04_Rapid(f *testing.F)               { fuzzRapid(f, TestC04_Rapid, 0) }
func FuzzC05_RapidSM(f *testing.F)             { fuzzRapid(f, TestC05_RapidSM, 0) }
func FuzzC06_Rapid(f *testing.F)               { fuzzRapid(f, TestC06_Rapid, 0) }
func FuzzC06_RapidHistories(f *testing.F)      { fuzzRapid(f, TestC06_RapidHistories, 0) }
func FuzzC07_Rapid(f *testing.F)               { fuzzRapid(f, TestC07_Rapid, 0) }
func FuzzC07_RapidHistories(f *testing.F)      { fuzzRapid(f, TestC07_RapidHistories, 0) }
func FuzzC07_RapidRoundTrips(f *testing.F)     { fuzzRapid(f, TestC07_RapidRoundTrips, 0) }
func FuzzC08_Rapid(f *testing.F)               { fuzzRapid(f, TestC08_Rapid, 0) }
func FuzzC08_RapidHistories(f *testing.F)      { fuzzRapid(f, TestC08_RapidHistories, 0) }
func FuzzC09_Rapid(f *testing.F)               { fuzzRapid(f, TestC09_Rapid, 0) }
func FuzzC10_Rapid(f *testing.F)               { fuzzRapid(f, TestC10_Rapid, 0) }
func FuzzC10_RapidMalformed(f *testing.F)      { fuzzRapid(f, TestC10_RapidMalformed, 0) }
func FuzzC11_Rapid(f *testing.F)               { fuzzRapid(f, TestC11_Rapid, 0) }
func FuzzC12_Rapid(f *testing.F)               { fuzzRapid(f, TestC12_Rapid, 0) }
func FuzzC12_RapidErrorPositions(f *testing.F) { fuzzRapid(f, TestC12_RapidErrorPositions, 0) }
func FuzzC12_RapidTemplateErrorPositions(f *testing.F) {
	fuzzRapid(f, TestC12_RapidTemplateErrorPositions, 0)
}
func FuzzC13_Rapid(f *testing.F)              { fuzzRapid(f, TestC13_Rapid, 0) }
func FuzzC14_Rapid(f *testing.F)              { fuzzRapid(f, TestC14_Rapid, 0) }
func FuzzC14_RapidTokenStreams(f *testing.F)  { fuzzRapid(f, TestC14_RapidTokenStreams, 0) }
func FuzzC15_Rapid(f *testing.F)              { fuzzRapid(f, TestC15_Rapid, 0) }
func FuzzC16_Rapid(f *testing.F)              { fuzzRapid(f, TestC16_Rapid, 0) }
func FuzzC17_Rapid(f *testing.F)              { fuzzRapid(f, TestC17_Rapid, 0) }
func FuzzC17_RapidTokenizerMaps(f *testing.F) { fuzzRapid(f, TestC17_RapidTokenizerMaps, 0) }
func FuzzC18_RapidCollections(f *testing.F)   { fuzzRapid(f, TestC18_RapidCollections, 0) }
func FuzzC18_RapidExpressions(f *testing.F)   { fuzzRapid(f, TestC18_RapidExpressions, 0) }
func FuzzC18_RapidTemplates(f *testing.F)     { fuzzRapid(f, TestC18_RapidTemplates, 0) }
func FuzzC19_RapidSequential(f *testing.F)    { fuzzRapid(f, TestC19_RapidSequential, 0) }
func FuzzC20_RapidSM(f *testing.F)            { fuzzRapid(f, TestC20_RapidSM, 0) }
