package props

import (
	"fmt"
	"github.com/pip-services3-gox/pip-services3-expressions-gox/calculator/variables"
	"regexp"
	"strings"
	"testing"

	"github.com/pip-services3-gox/pip-services3-expressions-gox/calculator"
	"github.com/pip-services3-gox/pip-services3-expressions-gox/calculator/functions"
	cparsers "github.com/pip-services3-gox/pip-services3-expressions-gox/calculator/parsers"
	"github.com/pip-services3-gox/pip-services3-expressions-gox/mustache"
	mparsers "github.com/pip-services3-gox/pip-services3-expressions-gox/mustache/parsers"
	"github.com/pip-services3-gox/pip-services3-expressions-gox/tokenizers"
	"github.com/pip-services3-gox/pip-services3-expressions-gox/variants"
	"pgregory.net/rapid"
	"verif/pbt/evid"
)

// C03 — untrusted input never crashes the library: a result or an error, always.

// ---- target 1: expressions -------------------------------------------------------------------------

type c03Expr struct {
	Text string    `json:"text"`
	Vars []binding `json:"vars"`
}

func exactlyOne(what string, v *variants.Variant, err error) *evid.Fail {
	switch {
	case v == nil && err == nil:
		return evid.F("neither-result-nor-error:"+what, "%s returned neither a result nor an error", what)
	case v != nil && err != nil:
		return evid.F("both-result-and-error:"+what, "%s returned a result and an error %v", what, err)
	}
	return nil
}

func checkC03Expr(c c03Expr) *evid.Fail {
	reached := false
	return checkC03ExprR(c, &reached)
}

func checkC03ExprR(c c03Expr, reached *bool) *evid.Fail {
	var res *evid.Fail
	if g := guard(func() {
		calc := calculator.NewExpressionCalculator()
		if err := calc.SetExpression(c.Text); err != nil {
			return
		}
		*reached = true
		for _, safe := range []bool{false, true} {
			calc.SetVariantOperations(opsManager(safe))
			v, err := calc.EvaluateUsingVariables(makeVars(c.Vars))
			if res = exactlyOne("EvaluateUsingVariables", v, err); res != nil {
				res.Msg = fmt.Sprintf("%q with %v: %s", c.Text, c.Vars, res.Msg)
				return
			}
			v, err = calc.Evaluate() // automatic (Null) variables
			if res = exactlyOne("Evaluate", v, err); res != nil {
				res.Msg = fmt.Sprintf("%q: %s", c.Text, res.Msg)
				return
			}
		}
		// the same values built from host values (NewVariant / VariantFromObject with every Go type they accept)
		hv := variables.NewVariableCollection()
		for i, b := range c.Vars {
			hv.Add(variables.NewVariable(b.Name, b.V.toHostVariant(i+len(c.Text))))
		}
		hvRes, hvErr := calc.EvaluateUsingVariables(hv)
		if res = exactlyOne("EvaluateUsingVariables with host-built values", hvRes, hvErr); res != nil {
			res.Msg = fmt.Sprintf("%q with %v: %s", c.Text, c.Vars, res.Msg)
			return
		}
		// explicit functions with the default variables (each of the two collections may be nil on its own)
		v0, err0 := calc.EvaluateUsingVariablesAndFunctions(nil, userFunctions(0))
		if res = exactlyOne("EvaluateUsingVariablesAndFunctions(nil, functions)", v0, err0); res != nil {
			res.Msg = fmt.Sprintf("%q: %s", c.Text, res.Msg)
			return
		}
		// variables whose values were cleared (explicit collection and defaults)
		vc := makeVars(c.Vars)
		vc.ClearValues()
		v, err := calc.EvaluateUsingVariables(vc)
		if res = exactlyOne("EvaluateUsingVariables after ClearValues", v, err); res != nil {
			res.Msg = fmt.Sprintf("%q: %s", c.Text, res.Msg)
			return
		}
		calc.DefaultVariables().ClearValues()
		v, err = calc.Evaluate()
		if res = exactlyOne("Evaluate after ClearValues", v, err); res != nil {
			res.Msg = fmt.Sprintf("%q: %s", c.Text, res.Msg)
			return
		}
		// the caller takes entries out of the calculator's own collections between two evaluations (the variables one
		// by one from the end, by name as written and by position; then a function): whatever is missing is an error
		for dv := calc.DefaultVariables(); dv.Length() > 0; {
			last := dv.Get(dv.Length() - 1)
			if dv.Length()%2 == 0 {
				dv.RemoveByName(last.Name())
			} else {
				dv.Remove(0)
			}
			v, err = calc.Evaluate()
			if res = exactlyOne("Evaluate after the caller removed a default variable", v, err); res != nil {
				res.Msg = fmt.Sprintf("%q: %s", c.Text, res.Msg)
				return
			}
		}
		if calc.SetExpression(c.Text) == nil { // the same text again on the emptied collection
			v, err = calc.Evaluate()
			if res = exactlyOne("Evaluate after the default variables were removed and the expression set again", v, err); res != nil {
				res.Msg = fmt.Sprintf("%q: %s", c.Text, res.Msg)
				return
			}
		}
		for _, name := range []string{"max", "IF", "Array", "Sum"} {
			calc.DefaultFunctions().RemoveByName(name)
		}
		v, err = calc.Evaluate()
		if res = exactlyOne("Evaluate after the caller removed default functions", v, err); res != nil {
			res.Msg = fmt.Sprintf("%q: %s", c.Text, res.Msg)
			return
		}
		calc.DefaultFunctions().Clear()
		calc.DefaultVariables().Clear()
		v, err = calc.Evaluate()
		if res = exactlyOne("Evaluate after the caller cleared the default collections", v, err); res != nil {
			res.Msg = fmt.Sprintf("%q: %s", c.Text, res.Msg)
			return
		}
		// automatic variables switched off before the first expression, no collection passed
		strict := calculator.NewExpressionCalculator()
		strict.SetAutoVariables(false)
		if strict.SetExpression(c.Text) == nil {
			v, err = strict.Evaluate()
			if res = exactlyOne("Evaluate with automatic variables off", v, err); res != nil {
				res.Msg = fmt.Sprintf("%q: %s", c.Text, res.Msg)
				return
			}
			v, err = strict.EvaluateUsingVariablesAndFunctions(nil, nil)
			if res = exactlyOne("EvaluateUsingVariablesAndFunctions(nil, nil) with automatic variables off", v, err); res != nil {
				res.Msg = fmt.Sprintf("%q: %s", c.Text, res.Msg)
				return
			}
			strict.Clear()
			strict.Evaluate()
		}
		// the constructor entry points
		if c2, err := calculator.ExpressionCalculatorFromExpression(c.Text); err == nil && c2 != nil {
			v, err = c2.Evaluate()
			if res = exactlyOne("FromExpression + Evaluate", v, err); res != nil {
				res.Msg = fmt.Sprintf("%q: %s", c.Text, res.Msg)
				return
			}
		}
	}); g != nil {
		g.Msg = fmt.Sprintf("expression %q with %v: %s", c.Text, c.Vars, g.Msg)
		return g
	}
	return res
}

// ---- target 2: templates ---------------------------------------------------------------------------

type c03Tmpl struct {
	Text string            `json:"text"`
	Map  map[string]string `json:"map"`
}

func checkC03Tmpl(c c03Tmpl) *evid.Fail {
	reached := false
	return checkC03TmplR(c, &reached)
}

func checkC03TmplR(c c03Tmpl, reached *bool) *evid.Fail {
	if g := guard(func() {
		t := mustache.NewMustacheTemplate()
		if err := t.SetTemplate(c.Text); err != nil {
			return
		}
		*reached = true
		t.EvaluateWithVariables(c.Map)
		t.Evaluate()
		t2, err := mustache.NewMustacheTemplateFromString(c.Text)
		if err == nil && t2 != nil {
			t2.EvaluateWithVariables(map[string]string{})
		}
		t3 := mustache.NewMustacheTemplate()
		t3.SetAutoVariables(false)
		if t3.SetTemplate(c.Text) == nil {
			t3.Evaluate()
			t3.SetDefaultVariables(nil)
			t3.Evaluate()
			t3.EvaluateWithVariables(nil)
			t3.Clear()
			t3.Evaluate()
		}
		// an object that was cleared is as good as new: the template again, with automatic variables, and rendered
		t.Clear()
		t.Evaluate()
		if t.SetTemplate(c.Text) == nil {
			t.Evaluate()
			t.EvaluateWithVariables(c.Map)
		}
	}); g != nil {
		g.Msg = fmt.Sprintf("template %q with %s: %s", c.Text, sortedMap(c.Map), g.Msg)
		return g
	}
	// "unclosed template sections ... surface as errors": the reference tag grammar (C10's) decides what is unclosed
	if *reached && strings.Trim(c.Text, " \t\r\n") != "" {
		if items, bad, dc := mLex(c.Text); bad == "" && !dc {
			if _, e, dc2 := mParse(items); (e == "unclosed section" || e == "mismatched section") && !dc2 {
				return evid.F("unclosed-section-accepted", "template %q has a section that is never closed (%s), yet SetTemplate returned no error", c.Text, e)
			}
		}
	}
	return nil
}

// ---- target 3: tokenizers --------------------------------------------------------------------------

type c03Tok struct {
	Tok   string `json:"tok"`
	Opts  int    `json:"opts"`
	Input string `json:"input"`
}

func checkC03Tok(c c03Tok) *evid.Fail {
	t := newTokenizer(c.Tok)
	if c.Opts >= 0 {
		setOptions(t, c.Opts)
	}
	if _, f := tokenizeCapped(t, c.Input, c.Opts&1); f != nil {
		f.Msg = fmt.Sprintf("%s tokenizer, options %s, input %q: %s", c.Tok, optNames(c.Opts), c.Input, f.Msg)
		return f
	}
	if g := guard(func() {
		t.TokenizeBuffer(c.Input)
		t.TokenizeBufferToStrings(c.Input)
	}); g != nil {
		g.Msg = fmt.Sprintf("%s tokenizer, options %s, TokenizeBuffer(%q): %s", c.Tok, optNames(c.Opts), c.Input, g.Msg)
		return g
	}
	return nil
}

// ---- target 4: quote decoding ------------------------------------------------------------------------

type c03Dec struct {
	State string `json:"state"`
	Quote rune   `json:"quote"`
	S     string `json:"s"`
}

func checkC03Dec(c c03Dec) *evid.Fail {
	if g := guard(func() {
		st := newQuoteState(c.State)
		st.DecodeString(c.S, c.Quote)
		st.EncodeString(c.S, c.Quote)
	}); g != nil {
		g.Msg = fmt.Sprintf("%s quote state, quote %q, text %q: %s", c.State, c.Quote, c.S, g.Msg)
		return g
	}
	return nil
}

// ---- target 5: functions and operators on arbitrary values -------------------------------------------

type c03Call struct {
	Fn   string `json:"fn,omitempty"` // function name, or
	Op   string `json:"op,omitempty"` // operator name
	Args []val  `json:"args"`
	Safe bool   `json:"safe"`
}

func checkC03Call(c c03Call) *evid.Fail {
	ops := opsManager(c.Safe)
	args := make([]*variants.Variant, len(c.Args))
	for i, a := range c.Args {
		args[i] = a.toVariant()
	}
	var v *variants.Variant
	var err error
	what := c.Fn + c.Op
	if g := guard(func() {
		if c.Fn != "" {
			f := functions.NewDefaultFunctionCollection().FindByName(c.Fn)
			v, err = f.Calculate(args, ops)
		} else {
			v, err = applyOp(ops, c.Op, args[0], args[1])
		}
	}); g != nil {
		g.Msg = fmt.Sprintf("%s(%v) safe=%v: %s", what, c.Args, c.Safe, g.Msg)
		return g
	}
	if f := exactlyOne(what, v, err); f != nil {
		f.Msg = fmt.Sprintf("%s(%v) safe=%v: %s", what, c.Args, c.Safe, f.Msg)
		return f
	}
	return nil
}

func init() {
	regReplay("C03.expr", checkC03Expr)
	regReplay("C03.template", checkC03Tmpl)
	regReplay("C03.tokenize", checkC03Tok)
	regReplay("C03.decode", checkC03Dec)
	regReplay("C03.call", checkC03Call)
}

const c03Rule = "arbitrary input strings x hostile variable assignments through five entry points (set+evaluate an expression under both managers, set+render a template, tokenize with each tokenizer under an option set, decode with each quote state, call every function / operator on arbitrary values); oracle: every call returns normally, evaluating calls yield exactly one of a non-nil result or a non-nil error, tokenizers terminate (token-count cap and scanner-call budget); non-trivial = the input reaches evaluation / rendering, or contains a quote with non-ASCII text, or is rejected after >= 2 tokens; distinct by (target, input, assignment)"

// hostile assignments: 0 divisors, negative / huge shift counts and indexes, Null everywhere, NaN, empties, non-ASCII
var c03Assignments = [][]binding{
	{{"a", vInt(0)}, {"bb", vInt(-1)}, {"tot", vString("")}, {"d_1", vArray()}, {"eve", vNull()}},
	{{"a", vInt(1)}, {"bb", vInt(64)}, {"tot", vString("é中😀")}, {"d_1", vArray(vInt(1), vNull(), vString("a"))}, {"eve", vDouble(parseFloat("NaN"))}},
	{{"a", vLong(-9223372036854775808)}, {"bb", vInt(1 << 40)}, {"tot", vString("abc")}, {"d_1", vArray(vArray(vInt(1)))}, {"eve", vBool(false)}},
	{{"a", vNull()}, {"bb", vNull()}, {"tot", vNull()}, {"d_1", vNull()}, {"eve", vNull()}},
}

func quoteNonASCII(s string) bool {
	in := rune(0)
	for _, r := range s {
		switch {
		case in == 0 && (r == '\'' || r == '"'):
			in = r
		case in != 0 && r == in:
			in = 0
		case in != 0 && r >= 0x80:
			return true
		}
	}
	return false
}

func TestC03_ExhaustiveExpressions(t *testing.T) {
	rec := evid.New("C03", "TestC03_ExhaustiveExpressions", "C03.expr", c03Rule)
	rec.Exhaustive = true
	rec.DupFree = true
	defer finish(t, rec)
	alpha := []string{"1", "a", "\"", "'", "(", ")", "[", "]", "-", "/", "*", ".", ",", "<", "=", "é", "中", "😀", " ", "NOT ", "IN ", "IS ", "NULL "}
	maxLen := pick(4, 5)
	rec.Bounds = fmt.Sprintf("all strings of length 0..%d over %d symbols (1 a \" ' ( ) [ ] - / * . , < = é 中 😀 blank and the atoms NOT, IN, IS, NULL) x 2 hostile assignments", maxLen, len(alpha))
	enumStrings(alpha, maxLen, true, func(parts []string) {
		s := runesOf(parts)
		for i, as := range c03Assignments[:2] {
			c := c03Expr{s, as}
			reached := false
			f := checkC03ExprR(c, &reached)
			rec.Case(fmt.Sprintf("%d|%s", i, s), reached || quoteNonASCII(s), func() interface{} { return c }, fmt.Sprintf("reached-evaluation:%v", reached))
			if f != nil {
				rec.Fail(f, c)
			}
		}
	})
	requireLabels(t, rec, "reached-evaluation:true", "reached-evaluation:false")
}

func TestC03_ExhaustiveTemplates(t *testing.T) {
	rec := evid.New("C03", "TestC03_ExhaustiveTemplates", "C03.template", c03Rule)
	rec.Exhaustive = true
	rec.DupFree = true
	defer finish(t, rec)
	alpha := []string{"{", "}", "#", "/", "^", "!", "a", "i", "f", " ", "\"", "é", "😀"}
	maxLen := pick(4, 6)
	rec.Bounds = fmt.Sprintf("all strings of length 0..%d over { } # / ^ ! a i f blank \" é 😀", maxLen)
	m := map[string]string{"a": "x", "A": "y", "if": ""}
	enumStrings(alpha, maxLen, true, func(parts []string) {
		s := runesOf(parts)
		c := c03Tmpl{s, m}
		reached := false
		f := checkC03TmplR(c, &reached)
		rec.Case(s, reached && strings.Contains(s, "{{"), func() interface{} { return c }, fmt.Sprintf("reached-rendering:%v", reached))
		if f != nil {
			rec.Fail(f, c)
		}
	})
}

func TestC03_ExhaustiveTokenizers(t *testing.T) {
	rec := evid.New("C03", "TestC03_ExhaustiveTokenizers", "C03.tokenize", c03Rule)
	rec.Exhaustive = true
	rec.DupFree = true
	defer finish(t, rec)
	maxLen := pick(3, 4)
	optSets := []int{-1, 0, optAll, optDecodeStrings, optSkipUnknown | optSkipComments | optSkipWhitespaces}
	rec.Bounds = fmt.Sprintf("all strings of length 0..%d over the 24-symbol class alphabet (the backslash included) x 8 tokenizers x 5 option sets (as constructed, none, all, decode only, all skips)", maxLen)
	enumStrings(c04Alphabet, maxLen, true, func(parts []string) {
		s := runesOf(parts)
		for _, k := range tokKindsExt {
			for _, o := range optSets {
				c := c03Tok{k, o, s}
				rec.Case(fmt.Sprintf("%s|%d|%s", k, o, s), quoteNonASCII(s) || len(parts) >= 2, func() interface{} { return c }, "tok:"+k)
				if f := checkC03Tok(c); f != nil {
					rec.Fail(f, c)
				}
			}
		}
	})
}

// mutateText applies character-level mutations to a well-formed source text.
func mutateText(t *rapid.T, s string, hostile []string) string {
	rs := []rune(s)
	n := rapid.IntRange(0, 3).Draw(t, "nmut")
	for i := 0; i < n; i++ {
		pos := 0
		if len(rs) > 0 {
			pos = rapid.IntRange(0, len(rs)).Draw(t, "pos")
		}
		switch rapid.IntRange(0, 4).Draw(t, "mk") {
		case 0:
			if pos < len(rs) {
				rs = append(rs[:pos], rs[pos+1:]...)
			}
		case 1:
			ins := []rune(rapid.SampledFrom(hostile).Draw(t, "ins"))
			rs = append(rs[:pos], append(ins, rs[pos:]...)...)
		case 2:
			if pos < len(rs) {
				rs[pos] = genRune(t)
			}
		case 3:
			rs = rs[:pos] // truncate
		default:
			if pos < len(rs) {
				rs = append(rs[:pos], append([]rune{rs[pos]}, rs[pos:]...)...)
			}
		}
	}
	return string(rs)
}

var c03HostileExpr = []string{" l\u0131ke ", " \u0131s ", " \u0131n ", " i\u017f null", " \u212a ", "nu\u0131l", " \u0130n ", "\ufeff", "\u00a0", "'", "\"", "\"\"", "''", "(", ")", "[", "]", ",", "/", "/*", "*/", "//", "-", "--", ".", "..", "1e", "e", "<", "<<", "<<-1", "[9]", "[-1]", "/0", "%0", " NOT ", " IN ", " IS ", " NULL", " LIKE ", "é", "中", "😀", "\x00", "\n", "'é'", "1/0", "^", "9999999999999999999999", "￿"}
var c03HostileTmpl = []string{"{{", "}}", "{{{", "}}}", "{", "}", "#", "/", "^", "!", "if", "unless", "'", "\"", " ", "😀", "{{#a}}", "{{/a}}", "{{/if}}", "{{^a}}", "{{! ", "￿", "\x00"}

func TestC03_RapidExpressions(t *testing.T) {
	rec := evid.New("C03", "TestC03_RapidExpressions", "C03.expr", c03Rule+"; rapid: generated well-formed expressions followed by 0-3 character-level mutations (delete, insert hostile fragment, replace by a random rune, truncate, duplicate)")
	defer finish(t, rec)
	cfg := c01GenCfg()
	cfg.funcs = append(cfg.funcs, c08Names...)
	runRapid(t, pick(40000, 300000), 3, func(rt *rapid.T) {
		tree := genSized(rt, cfg, rapid.SampledFrom([]int{1, 2, 3, 5, 8, 12}).Draw(rt, "size"))
		text := spellRandom(rt, printTokens(tree, rapid.IntRange(0, 2).Draw(rt, "style"), nil))
		text = mutateText(rt, text, c03HostileExpr)
		var vars []binding
		if rapid.Bool().Draw(rt, "hostilevars") {
			vars = rapid.SampledFrom(c03Assignments).Draw(rt, "assignment")
		} else {
			for _, n := range c01VarNames {
				vars = append(vars, binding{n, genValue(rt, 2)})
			}
		}
		c := c03Expr{text, vars}
		reached := false
		f := checkC03ExprR(c, &reached)
		rec.Case(jsonStr(c), reached || quoteNonASCII(text), func() interface{} { return c }, fmt.Sprintf("reached-evaluation:%v", reached))
		if f != nil && rec.Fail(f, c) {
			rt.Fatalf("%v", f)
		}
	})
	requireLabels(t, rec, "reached-evaluation:true", "reached-evaluation:false")
}

// ---- "malformed expressions ... surface as errors" ----------------------------------------------------

type c03Malformed struct {
	Toks []etok `json:"toks"`
}

// checkC03Malformed: a token sequence the reference grammar (C02's) rejects must come back from SetExpression as an
// error - not as a calculator that then evaluates something else.
func checkC03Malformed(c c03Malformed) *evid.Fail {
	if len(c.Toks) == 0 {
		return nil
	}
	if tree, _ := refParse(c.Toks); tree != nil {
		return nil
	}
	src := spellPlain(c.Toks)
	var err error
	var v *variants.Variant
	var eerr error
	if g := guard(func() {
		calc := calculator.NewExpressionCalculator()
		if err = calc.SetExpression(src); err == nil {
			v, eerr = calc.Evaluate()
		}
	}); g != nil {
		g.Msg = fmt.Sprintf("malformed expression %q: %s", src, g.Msg)
		return g
	}
	if err == nil {
		return evid.F("malformed-expression-accepted", "%q is not an expression of the grammar, yet SetExpression returned no error (evaluation then gives %s)", src, resultRepr(v, eerr))
	}
	return nil
}

func init() { regReplay("C03.malformed", checkC03Malformed) }

func TestC03_RapidMalformedExpressions(t *testing.T) {
	rec := evid.New("C03", "TestC03_RapidMalformedExpressions", "C03.malformed", "generated well-formed expressions with 1-3 token-level mutations (insert, delete, replace, duplicate over a 50-token vocabulary); when the reference grammar rejects the sequence, SetExpression must return an error; non-trivial = the reference grammar rejects; distinct by token sequence")
	defer finish(t, rec)
	cfg := c02GenCfg()
	runRapid(t, pick(15000, 120000), 303, func(rt *rapid.T) {
		tree := genSized(rt, cfg, rapid.SampledFrom([]int{1, 2, 3, 4, 6, 8}).Draw(rt, "size"))
		toks := printTokens(tree, rapid.IntRange(0, 2).Draw(rt, "style"), nil)
		for m := rapid.IntRange(1, 3).Draw(rt, "mutations"); m > 0 && len(toks) > 0; m-- {
			i := rapid.IntRange(0, len(toks)-1).Draw(rt, "at")
			switch rapid.IntRange(0, 3).Draw(rt, "mut") {
			case 0:
				toks = append(toks[:i], append([]etok{rapid.SampledFrom(c02Vocabulary).Draw(rt, "ins")}, toks[i:]...)...)
			case 1:
				toks = append(append([]etok{}, toks[:i]...), toks[i+1:]...)
			case 2:
				toks = append([]etok{}, toks...)
				toks[i] = rapid.SampledFrom(c02Vocabulary).Draw(rt, "rep")
			default:
				toks = append(toks[:i+1], append([]etok{toks[i]}, toks[i+1:]...)...)
			}
		}
		c := c03Malformed{toks}
		tree2, _ := refParse(toks)
		rec.Case(jsonStr(c), tree2 == nil && len(toks) > 0, func() interface{} { return c }, fmt.Sprintf("rejected-by-reference:%v", tree2 == nil))
		if f := checkC03Malformed(c); f != nil && rec.Fail(f, c) {
			rt.Fatalf("%v", f)
		}
	})
	requireLabels(t, rec, "rejected-by-reference:true")
}

var c03CloserRe = regexp.MustCompile(`\{\{\{?\s*/[^{}]*\}\}\}?`)

func TestC03_RapidTemplates(t *testing.T) {
	rec := evid.New("C03", "TestC03_RapidTemplates", "C03.template", c03Rule+"; rapid: generated well-formed templates followed by 0-3 character-level mutations")
	defer finish(t, rec)
	runRapid(t, pick(25000, 200000), 33, func(rt *rapid.T) {
		budget := rapid.SampledFrom([]int{2, 4, 6, 10}).Draw(rt, "budget")
		tree := genNodes(rt, rapid.IntRange(0, 4).Draw(rt, "depth"), &budget)
		var sb strings.Builder
		mPrint(tree, &sb)
		text := sb.String()
		if rapid.IntRange(0, 2).Draw(rt, "dropcloser") == 0 {
			// tag-level damage: one whole section closer removed (an inner section left open inside a closed outer one)
			if locs := c03CloserRe.FindAllStringIndex(text, -1); len(locs) > 0 {
				l := locs[rapid.IntRange(0, len(locs)-1).Draw(rt, "closer")]
				text = text[:l[0]] + text[l[1]:]
			}
		}
		text = mutateText(rt, text, c03HostileTmpl)
		c := c03Tmpl{text, genMap(rt)}
		reached := false
		f := checkC03TmplR(c, &reached)
		rec.Case(jsonStr(c), reached, func() interface{} { return c }, fmt.Sprintf("reached-rendering:%v", reached))
		if f != nil && rec.Fail(f, c) {
			rt.Fatalf("%v", f)
		}
	})
	requireLabels(t, rec, "reached-rendering:true", "reached-rendering:false")
}

func TestC03_RapidTokenizersAndDecoders(t *testing.T) {
	rec := evid.New("C03", "TestC03_RapidTokenizersAndDecoders", "C03.tokenize", c03Rule)
	defer finish(t, rec)
	runRapid(t, pick(30000, 250000), 333, func(rt *rapid.T) {
		kind := rapid.SampledFrom(tokKindsExt).Draw(rt, "tok")
		in := genTokInput(rt, c04Alphabet, 48)
		if rapid.Bool().Draw(rt, "frag") {
			in = genOptInput(rt, kind)
		}
		c := c03Tok{kind, rapid.IntRange(-1, optAll).Draw(rt, "opts"), in}
		rec.Case(jsonStr(c), quoteNonASCII(in) || len(in) > 3, func() interface{} { return c }, "tok:"+kind)
		if f := checkC03Tok(c); f != nil && rec.Fail(f, c) {
			rt.Fatalf("%v", f)
		}
		d := c03Dec{rapid.SampledFrom(c14States).Draw(rt, "state"), rapid.SampledFrom(append([]rune{'x', 0, '😀'}, c14Quotes...)).Draw(rt, "quote"), in}
		if f := checkC03Dec(d); f != nil {
			rec.Kind = "C03.decode"
			bad := rec.Fail(f, d)
			rec.Kind = "C03.tokenize"
			if bad {
				rt.Fatalf("%v", f)
			}
		}
	})
}

func TestC03_RapidCalls(t *testing.T) {
	rec := evid.New("C03", "TestC03_RapidCalls", "C03.call", c03Rule)
	defer finish(t, rec)
	runRapid(t, pick(40000, 300000), 3333, func(rt *rapid.T) {
		c := c03Call{Safe: rapid.Bool().Draw(rt, "safe")}
		if rapid.Bool().Draw(rt, "fn") {
			c.Fn = rapid.SampledFrom(c08Names).Draw(rt, "name")
			n := rapid.IntRange(0, 8).Draw(rt, "argc")
			for i := 0; i < n; i++ {
				c.Args = append(c.Args, genValue(rt, 2))
			}
		} else {
			c.Op = rapid.SampledFrom(refOperators).Draw(rt, "op")
			c.Args = []val{genValue(rt, 2), genValue(rt, 2)}
		}
		rec.Case(jsonStr(c), true, func() interface{} { return fmt.Sprintf("%s%s(%v) safe=%v", c.Fn, c.Op, c.Args, c.Safe) }, "target:"+c.Fn+c.Op)
		if f := checkC03Call(c); f != nil && rec.Fail(f, c) {
			rt.Fatalf("%v", f)
		}
	})
}

// ---- native fuzz targets (thorough tier) ---------------------------------------------------------------

func fuzzReport(t *testing.T, prop string, f *evid.Fail, c interface{}) {
	if f == nil {
		return
	}
	if _, known := evid.IsKnown(prop, f.Sig); known {
		return
	}
	t.Fatalf("VIOLATION-SIG %s :: %s :: %s", f.Sig, strings.ReplaceAll(f.Msg, "\n", " "), jsonStr(c))
}

func FuzzC03_Expr(f *testing.F) {
	for _, s := range append(fuzzSeedStrings, "2 + 2 * 2", "a IN Array(1,2)", "Max(a, b) > 1 AND NOT e IS NULL", "'abc'[9]", "1 << -1", "a / 0", "\"\"", "x NOT IN e") {
		f.Add(s, uint8(0))
	}
	f.Fuzz(func(t *testing.T, s string, k uint8) {
		if len(s) > 1<<16 {
			t.Skip()
		}
		c := c03Expr{string([]rune(s)), c03Assignments[int(k)%len(c03Assignments)]}
		fuzzReport(t, "C03", checkC03Expr(c), c)
	})
}

func FuzzC03_Template(f *testing.F) {
	for _, s := range append(fuzzSeedStrings, "{{#a}}x", "{{^a}}{{/a}}", "{{{a}}}", "{{! c }}", "{{#if a}}{{b}}{{/if}}", "{{a}}}") {
		f.Add(s)
	}
	f.Fuzz(func(t *testing.T, s string) {
		if len(s) > 1<<16 {
			t.Skip()
		}
		c := c03Tmpl{string([]rune(s)), map[string]string{"a": "1", "B": "", "name": "x/\"y"}}
		fuzzReport(t, "C03", checkC03Tmpl(c), c)
	})
}

func FuzzC03_Tokenize(f *testing.F) {
	for _, s := range fuzzSeedStrings {
		f.Add(s, uint8(0), uint8(0))
		f.Add(s, uint8(1), uint8(127))
	}
	f.Fuzz(func(t *testing.T, s string, k uint8, o uint8) {
		if len(s) > 1<<16 {
			t.Skip()
		}
		c := c03Tok{tokKindsExt[int(k)%len(tokKindsExt)], int(o) % (optAll + 1), string([]rune(s))}
		fuzzReport(t, "C03", checkC03Tok(c), c)
	})
}

func FuzzC03_Decode(f *testing.F) {
	for _, s := range fuzzSeedStrings {
		f.Add(s, uint8(0), uint8(0))
	}
	f.Fuzz(func(t *testing.T, s string, st uint8, q uint8) {
		if len(s) > 1<<16 {
			t.Skip()
		}
		c := c03Dec{c14States[int(st)%3], c14Quotes[int(q)%len(c14Quotes)], string([]rune(s))}
		fuzzReport(t, "C03", checkC03Dec(c), c)
	})
}

// ---- target 6: failing user-defined functions ----------------------------------------------------------

type c03Fail struct {
	Text string `json:"text"`
	Safe bool   `json:"safe"`
}

type customPanic struct{ code int }

// failingFunctions: delegated functions that fail in every way a function can (panic with a string, an
// error, an arbitrary value, a runtime error; return an error; hit the Variant API's own string panics).
func failingFunctions() functions.IFunctionCollection {
	fc := functions.NewDefaultFunctionCollection()
	add := func(name string, f functions.FunctionCalculator) { fc.Add(functions.NewDelegatedFunction(name, f)) }
	add("PanicStr", func(p []*variants.Variant, o variants.IVariantOperations) (*variants.Variant, error) { panic("boom") })
	add("PanicErr", func(p []*variants.Variant, o variants.IVariantOperations) (*variants.Variant, error) {
		panic(fmt.Errorf("boom"))
	})
	add("PanicVal", func(p []*variants.Variant, o variants.IVariantOperations) (*variants.Variant, error) {
		panic(customPanic{42})
	})
	add("PanicRuntime", func(p []*variants.Variant, o variants.IVariantOperations) (*variants.Variant, error) {
		var m map[string]int
		m["x"] = 1
		return variants.VariantFromInteger(1), nil
	})
	add("Fail", func(p []*variants.Variant, o variants.IVariantOperations) (*variants.Variant, error) {
		return nil, fmt.Errorf("failed on purpose")
	})
	add("FailBoth", func(p []*variants.Variant, o variants.IVariantOperations) (*variants.Variant, error) {
		return variants.VariantFromInteger(0), fmt.Errorf("failed on purpose, with a placeholder value") // the usual Go way
	})
	add("Third", func(p []*variants.Variant, o variants.IVariantOperations) (*variants.Variant, error) {
		return variants.VariantFromArray(p).GetByIndex(2), nil // the Variant API panics with a string for short lists
	})
	add("Seven", func(p []*variants.Variant, o variants.IVariantOperations) (*variants.Variant, error) {
		return variants.VariantFromInteger(7), nil
	})
	return fc
}

func checkC03Fail(c c03Fail) *evid.Fail {
	var res *evid.Fail
	if g := guard(func() {
		calc := calculator.NewExpressionCalculator()
		calc.SetVariantOperations(opsManager(c.Safe))
		if err := calc.SetExpression(c.Text); err != nil {
			return
		}
		v, err := calc.EvaluateUsingVariablesAndFunctions(makeVars(c03Assignments[1]), failingFunctions())
		if res = exactlyOne("Evaluate", v, err); res != nil {
			res.Msg = fmt.Sprintf("%q with failing user functions: %s", c.Text, res.Msg)
			return
		}
		// every operand and argument is evaluated: an expression that calls a function which fails cannot have a value
		for _, failing := range []string{"PanicStr(", "PanicErr(", "PanicVal(", "PanicRuntime(", "Fail(", "FailBoth(", "Third()", "Third(1, 2)"} {
			if strings.Contains(c.Text, failing) && err == nil {
				res = evid.F("failing-function-yields-value", "%q evaluates to %s although the function called in it fails", c.Text, fromVariant(v))
				return
			}
		}
	}); g != nil {
		g.Msg = fmt.Sprintf("expression %q with failing user functions: %s", c.Text, g.Msg)
		return g
	}
	return res
}

func init() { regReplay("C03.fail", checkC03Fail) }

func TestC03_EnumFailingFunctions(t *testing.T) {
	rec := evid.New("C03", "TestC03_EnumFailingFunctions", "C03.fail", c03Rule+"; failing functions: every way a delegated function can fail (panic with a string / error / arbitrary value / runtime error, returned error, Variant API panic) in every calling context")
	rec.Exhaustive = true
	rec.DupFree = true
	defer finish(t, rec)
	calls := []string{"PanicStr()", "PanicErr()", "PanicVal()", "PanicRuntime()", "Fail()", "FailBoth()", "FailBoth(a)", "Third(1, 2)", "Third(1, 2, 3)", "Seven()", "PanicStr(a, b)", "Third()"}
	contexts := []string{"%s", "1 + %s", "%s + 1", "Max(%s, 1)", "Max(1, %s)", "Sum(%s, %s)", "NOT %s", "- %s", "%s[0]", "a IN Array(%s)", "If(%s, 1, 2)", "If(TRUE, 1, %s)", "%s IS NULL", "(%s) = (%s)", "Array(%s, 2)[0]", "Seven() + %s * 2"}
	rec.Bounds = fmt.Sprintf("%d failing / succeeding user function calls x %d calling contexts x 2 managers", len(calls), len(contexts))
	for _, call := range calls {
		for _, ctx := range contexts {
			for _, safe := range []bool{false, true} {
				text := strings.ReplaceAll(ctx, "%s", call)
				c := c03Fail{text, safe}
				rec.Case(jsonStr(c), true, func() interface{} { return c })
				if f := checkC03Fail(c); f != nil {
					rec.Fail(f, c)
				}
			}
		}
	}
}

// ---- target 7: caller-supplied token lists ---------------------------------------------------------------

type c03Tokens struct {
	Types  []int    `json:"types"`
	Values []string `json:"values"`
}

func checkC03Tokens(c c03Tokens) *evid.Fail {
	mk := func() []*tokenizers.Token {
		out := make([]*tokenizers.Token, len(c.Types))
		for i := range c.Types {
			out[i] = tokenizers.NewToken(c.Types[i], c.Values[i], 1, i+1)
		}
		return out
	}
	if g := guard(func() {
		p := cparsers.NewExpressionParser()
		p.ParseTokens(mk())
		p.SetOriginalTokens(mk())
		calc := calculator.NewExpressionCalculator()
		calc.SetOriginalTokens(mk())
		if v, err := calc.Evaluate(); v == nil && err == nil {
			panic("Evaluate returned neither a result nor an error")
		}
		mp := mparsers.NewMustacheParser()
		mp.ParseTokens(mk())
		mt := mustache.NewMustacheTemplate()
		if mt.SetOriginalTokens(mk()) == nil {
			mt.EvaluateWithVariables(map[string]string{"a": "1"})
		}
	}); g != nil {
		g.Msg = fmt.Sprintf("token list %v %q: %s", c.Types, c.Values, g.Msg)
		return g
	}
	return nil
}

func init() { regReplay("C03.tokens", checkC03Tokens) }

func TestC03_RapidTokenLists(t *testing.T) {
	rec := evid.New("C03", "TestC03_RapidTokenLists", "C03.tokens", c03Rule+"; caller-supplied token lists (any token type with any text) through ParseTokens / SetOriginalTokens of the expression parser, the calculator, the mustache parser and the template")
	defer finish(t, rec)
	texts := []string{"", "a", "AND", "and", "Foo", "NULL", "IS", "NOT", "LIKE", "TRUE", "lıke", "1", "1.5", "x y", "(", ")", "[", "]", ",", "+", "-", "<>", "!=", "<<", "{{", "}}", "{{{", "}}}", "#", "/", "^", "!", "if", "unless", " ", "'s'", "\"q\"", "/* c */", "😀"}
	runRapid(t, pick(30000, 200000), 33333, func(rt *rapid.T) {
		n := rapid.IntRange(0, 10).Draw(rt, "n")
		var c c03Tokens
		for i := 0; i < n; i++ {
			c.Types = append(c.Types, rapid.IntRange(0, 14).Draw(rt, "type"))
			c.Values = append(c.Values, rapid.SampledFrom(texts).Draw(rt, "text"))
		}
		rec.Case(jsonStr(c), n >= 2, func() interface{} { return c })
		if f := checkC03Tokens(c); f != nil && rec.Fail(f, c) {
			rt.Fatalf("%v", f)
		}
	})
}

// ---- arrays built in every way the Variant API offers, indexed inside and outside their range -----------------

type c03ArrCase struct {
	Builder string `json:"builder"`
	N       int    `json:"n"`
	Index   int    `json:"index"`
	Safe    bool   `json:"safe"`
}

var c03Builders = []string{"VariantFromArray", "SetAsArray", "NewVariant", "SetByIndex-ascending", "SetByIndex-last-first", "SetLength", "SetLength-then-fill", "Clone", "Assign"}

func c03BuildArray(builder string, n int) *variants.Variant {
	els := make([]*variants.Variant, n)
	for i := range els {
		els[i] = variants.VariantFromInteger(10 + i)
	}
	switch builder {
	case "VariantFromArray":
		return variants.VariantFromArray(els)
	case "SetAsArray":
		v := variants.EmptyVariant()
		v.SetAsArray(els)
		return v
	case "NewVariant":
		return variants.NewVariant(els)
	case "SetByIndex-ascending":
		v := variants.VariantFromArray(nil)
		for i, e := range els {
			v.SetByIndex(i, e)
		}
		return v
	case "SetByIndex-last-first":
		v := variants.VariantFromArray([]*variants.Variant{})
		if n > 0 {
			v.SetByIndex(n-1, els[n-1]) // everything below is filled with nulls
		}
		return v
	case "SetLength":
		v := variants.VariantFromArray(nil)
		v.SetLength(n)
		return v
	case "SetLength-then-fill":
		v := variants.VariantFromArray(nil)
		v.SetLength(n)
		for i := 0; i < n; i += 2 {
			v.SetByIndex(i, els[i])
		}
		return v
	case "Clone":
		return variants.VariantFromArray(els).Clone()
	}
	v := variants.EmptyVariant()
	v.Assign(variants.VariantFromArray(els))
	return v
}

// checkC03Arr: "out-of-range indexes ... surface as errors" - and indexes in range as values - for an array of n
// elements however it was built; membership never crashes either.
func checkC03Arr(c c03ArrCase) *evid.Fail {
	var res *evid.Fail
	desc := fmt.Sprintf("array of %d elements built by %s, index %d", c.N, c.Builder, c.Index)
	if g := guard(func() {
		ops := opsManager(c.Safe)
		arr := c03BuildArray(c.Builder, c.N)
		v, err := ops.GetElement(arr, variants.VariantFromInteger(c.Index))
		if res = exactlyOne("GetElement", v, err); res != nil {
			return
		}
		inRange := c.Index >= 0 && c.Index < c.N
		if inRange && err != nil {
			res = evid.F("index-in-range-fails", "%s: GetElement failed with %v", desc, err)
			return
		}
		if !inRange && err == nil {
			res = evid.F("index-out-of-range-accepted", "%s: GetElement returned %s instead of an error", desc, fromVariant(v))
			return
		}
		in, ierr := ops.In(arr, variants.VariantFromInteger(10))
		if res = exactlyOne("In", in, ierr); res != nil {
			return
		}
		// and through an expression with the array as a variable
		calc := calculator.NewExpressionCalculator()
		calc.SetVariantOperations(ops)
		if calc.SetExpression(fmt.Sprintf("arr[%d]", c.Index)) == nil || c.Index < 0 {
			vc := variables.NewVariableCollection()
			vc.Add(variables.NewVariable("arr", arr))
			if c.Index < 0 {
				calc.SetExpression(fmt.Sprintf("arr[0 - %d]", -c.Index))
			}
			ev, eerr := calc.EvaluateUsingVariables(vc)
			if res = exactlyOne("arr[i]", ev, eerr); res != nil {
				return
			}
			if (eerr == nil) != inRange {
				res = evid.F("index-expression-disagrees", "%s: the expression arr[i] gives %s, in range = %v", desc, resultRepr(ev, eerr), inRange)
				return
			}
			calc.SetExpression("7 IN arr")
			ev, eerr = calc.EvaluateUsingVariables(vc)
			if res = exactlyOne("7 IN arr", ev, eerr); res != nil {
				return
			}
			calc.SetExpression("7 NOT IN arr")
			ev, eerr = calc.EvaluateUsingVariables(vc)
			res = exactlyOne("7 NOT IN arr", ev, eerr)
		}
	}); g != nil {
		g.Msg = desc + ": " + g.Msg
		return g
	}
	if res != nil {
		res.Msg = desc + ": " + res.Msg
	}
	return res
}

func init() { regReplay("C03.arr", checkC03Arr) }

func TestC03_EnumArrayBuilders(t *testing.T) {
	rec := evid.New("C03", "TestC03_EnumArrayBuilders", "C03.arr", "arrays of 0..4 elements built in nine ways (constructors, SetByIndex ascending / last index first, SetLength, clone, assign) x every index -2..n+1 x 2 managers: GetElement / arr[i] give a value inside the range and an error outside, membership returns normally; non-trivial = an index at or beyond the end, or an array with filler nulls; distinct by case")
	rec.Exhaustive = true
	rec.DupFree = true
	defer finish(t, rec)
	rec.Bounds = fmt.Sprintf("%d builders x n in 0..4 x index in -2..n+1 x 2 managers", len(c03Builders))
	for _, b := range c03Builders {
		for n := 0; n <= 4; n++ {
			for i := -2; i <= n+1; i++ {
				for _, safe := range []bool{false, true} {
					c := c03ArrCase{b, n, i, safe}
					rec.Case(jsonStr(c), i >= n || strings.HasPrefix(b, "SetLength") || b == "SetByIndex-last-first", func() interface{} { return c }, "builder:"+b)
					if f := checkC03Arr(c); f != nil {
						rec.Fail(f, c)
					}
				}
			}
		}
	}
}

// ---------------------------------------------------------------------------------------
// Sizes: the long argument lists, chains and nestings of C01's size enumeration, and templates / texts of the same
// orders of magnitude, must return normally like everything else.

type c03BigCase struct {
	Kind  string `json:"kind"` // expr | template | tokenize
	Shape string `json:"shape"`
	N     int    `json:"n"`
}

func (c c03BigCase) text() string {
	switch c.Kind {
	case "expr":
		t, _ := c01BigCase{Shape: c.Shape, N: c.N}.build()
		return t
	case "template":
		switch c.Shape {
		case "nested":
			return strings.Repeat("{{#a}}x", c.N) + strings.Repeat("{{/a}}", c.N)
		case "unclosed":
			return strings.Repeat("{{#a}}x", c.N)
		case "vars":
			return strings.Repeat("{{a}}-{{{b}}} ", c.N)
		}
		return "Hello {{ " + strings.Repeat("n", c.N) + " }}{{#" + strings.Repeat("s", c.N) + "}}!{{/" + strings.Repeat("s", c.N) + "}}"
	}
	switch c.Shape {
	case "quotes":
		return strings.Repeat("'a\\' ", c.N)
	case "symbols":
		return strings.Repeat("<", c.N) + strings.Repeat("-.", c.N)
	}
	return strings.Repeat("/*", c.N) + strings.Repeat("*/", c.N) + strings.Repeat("1e", c.N)
}

func checkC03Big(c c03BigCase) *evid.Fail {
	text := c.text()
	var f *evid.Fail
	switch c.Kind {
	case "expr":
		f = checkC03Expr(c03Expr{Text: text, Vars: []binding{{"a", vInt(1)}}})
	case "template":
		f = checkC03Tmpl(c03Tmpl{Text: text, Map: map[string]string{"a": "1", "b": "<>", strings.Repeat("n", c.N): "v", strings.Repeat("S", c.N): "y"}})
	default:
		for _, k := range tokKinds {
			for _, o := range []int{-1, optAll} {
				if f == nil {
					f = checkC03Tok(c03Tok{k, o, text})
				}
			}
		}
	}
	if f != nil {
		if len(f.Msg) > 500 {
			f.Msg = f.Msg[:250] + " ... " + f.Msg[len(f.Msg)-250:]
		}
		f.Msg = fmt.Sprintf("%s %s of size %d: %s", c.Kind, c.Shape, c.N, f.Msg)
	}
	return f
}

func init() { regReplay("C03.big", checkC03Big) }

func TestC03_EnumSizes(t *testing.T) {
	rec := evid.New("C03", "TestC03_EnumSizes", "C03.big", c03Rule+"; sizes: expressions with N arguments / operands / nesting levels, templates with N nested / unclosed sections, N variables, names of N characters, texts of N unterminated literals / symbols / comment openers, N = 15..17, 31..33, 63..65, 127..129, 255..257, 1000 (4096 for texts)")
	rec.Exhaustive = true
	rec.DupFree = true
	defer finish(t, rec)
	var cases []c03BigCase
	sizes := []int{15, 16, 17, 31, 32, 33, 63, 64, 65, 127, 128, 129, 255, 256, 257, 1000}
	for _, n := range sizes {
		for _, shape := range []string{"args", "argsComputed", "leftChain", "rightChain", "parens", "nestedCalls"} {
			cases = append(cases, c03BigCase{"expr", shape, n})
		}
		for _, shape := range []string{"nested", "unclosed", "vars", "names"} {
			cases = append(cases, c03BigCase{"template", shape, n})
		}
		for _, shape := range []string{"quotes", "symbols", "comments"} {
			cases = append(cases, c03BigCase{"tokenize", shape, n}, c03BigCase{"tokenize", shape, n * 4})
		}
	}
	rec.Bounds = fmt.Sprintf("%d described inputs", len(cases))
	parallelFor(len(cases), func(i int) {
		c := cases[i]
		rec.Case(jsonStr(c), true, func() interface{} { return c }, "kind:"+c.Kind)
		if f := checkC03Big(c); f != nil {
			rec.Fail(f, c)
		}
	})
}
