package props

import (
	"fmt"
	"math"
	"reflect"
	"testing"
	"time"

	"github.com/pip-services3-gox/pip-services3-expressions-gox/calculator/variables"
	"github.com/pip-services3-gox/pip-services3-expressions-gox/variants"
	"pgregory.net/rapid"
	"verif/pbt/evid"
)

// C20 — variants hold what they were given: typed access, copies and equality.

// ---- (a) host values -------------------------------------------------------------------------------

type c20Host struct {
	GoType string `json:"goType"` // int int32 uint uint32 int64 float32 float64 bool string time duration slice variant nil other
	V      val    `json:"v"`      // the value (for variant/slice: the described variant)
	Via    string `json:"via"`    // NewVariant | VariantFromObject | SetAsObject | typed
}

func c20HostValue(c c20Host) (interface{}, val) {
	v := c.V
	switch c.GoType {
	case "int":
		return int(v.I), vInt(int(v.I))
	case "int32":
		return int32(v.I), vInt(int(int32(v.I)))
	case "uint":
		return uint(v.I), vLong(v.I)
	case "uint32":
		return uint32(v.I), vLong(int64(uint32(v.I)))
	case "int64":
		return v.I, vLong(v.I)
	case "float32":
		return v.f32(), vFloat(v.f32())
	case "float64":
		return v.f64(), vDouble(v.f64())
	case "bool":
		return v.I != 0, vBool(v.I != 0)
	case "string":
		return v.S, vString(v.S)
	case "time":
		return v.toTime(), vTime(v.toTime())
	case "duration":
		return v.dur(), vSpan(v.dur())
	case "slice":
		els := make([]*variants.Variant, len(v.A))
		for i, e := range v.A {
			els[i] = e.toVariant()
		}
		return els, vArray(v.A...)
	case "variant":
		return v.toVariant(), v
	case "nil":
		return nil, vNull()
	}
	return objPayload{v.S}, val{K: "object", S: v.S}
}

func checkC20Host(c c20Host) *evid.Fail {
	var res *evid.Fail
	if g := guard(func() {
		host, want := c20HostValue(c)
		var v *variants.Variant
		switch c.Via {
		case "NewVariant":
			v = variants.NewVariant(host)
		case "VariantFromObject":
			v = variants.VariantFromObject(host)
		case "SetAsObject":
			v = variants.VariantFromString("previous")
			v.SetAsObject(host)
		case "typed":
			switch x := host.(type) {
			case int:
				v = variants.VariantFromInteger(x)
			case int64:
				v = variants.VariantFromLong(x)
			case float32:
				v = variants.VariantFromFloat(x)
			case float64:
				v = variants.VariantFromDouble(x)
			case bool:
				v = variants.VariantFromBoolean(x)
			case string:
				v = variants.VariantFromString(x)
			case time.Time:
				v = variants.VariantFromDateTime(x)
			case time.Duration:
				v = variants.VariantFromTimeSpan(x)
			case []*variants.Variant:
				v = variants.VariantFromArray(x)
			default:
				v = variants.NewVariant(host)
			}
		}
		got := fromVariant(v)
		if !equalVal(got, want) {
			sig := "host-value:" + c.GoType
			if got.K != want.K {
				sig = "host-type:" + c.GoType
			}
			res = evid.F(sig, "%s(%s %v) reports %s, expected %s", c.Via, c.GoType, host, got, want)
			return
		}
		if want.K == "datetime" && !v.AsDateTime().Equal(want.toTime()) {
			res = evid.F("host-value:time", "time accessor returned %v for %v", v.AsDateTime(), want.toTime())
			return
		}
		if ht, ok := host.(time.Time); ok {
			if v.AsDateTime() != ht || v.AsObject() != interface{}(ht) {
				res = evid.F("host-value:time-not-identical", "%s(time.Time %v): the accessor returns %v, which is not the value given (==)", c.Via, ht, v.AsDateTime())
				return
			}
		}
		if c.GoType == "time" {
			// a value read from the clock (it carries a monotonic reading) through every constructor
			now := time.Now()
			for via, nv := range map[string]*variants.Variant{"VariantFromDateTime": variants.VariantFromDateTime(now), "NewVariant": variants.NewVariant(now), "VariantFromObject": variants.VariantFromObject(now)} {
				if nv.Type() != variants.DateTime || nv.AsDateTime() != now {
					res = evid.F("host-value:time-not-identical", "%s(time.Now()): the accessor returns %v, not the value given %v (==)", via, nv.AsDateTime(), now)
					return
				}
			}
			s := variants.EmptyVariant()
			s.SetAsDateTime(now)
			if s.AsDateTime() != now || !s.Equals(variants.NewVariant(now)) || !variants.NewVariant(now).Equals(s) || !s.Clone().Equals(s) {
				res = evid.F("host-value:time-not-identical", "SetAsDateTime(time.Now()): accessor / Equals / Clone disagree with the value given")
				return
			}
		}
		// a variant built from a list keeps its own copy: later changes to the caller's list are invisible
		if els, ok := host.([]*variants.Variant); ok && len(els) > 0 {
			els[0] = variants.VariantFromString("changed by the caller")
			if after := fromVariant(v); !equalVal(after, want) {
				res = evid.F("array-shares-callers-list", "%s: after the caller changed its list the variant reads %s, expected %s", c.Via, after, want)
				return
			}
		}
		// a variant built from another array variant must not share its list either
		if src, ok := host.(*variants.Variant); ok && src.Type() == variants.Array {
			src.SetByIndex(src.Length(), variants.VariantFromInteger(99))
			if src.Length() > 1 {
				src.SetByIndex(0, variants.VariantFromString("changed in the source"))
			}
			if after := fromVariant(v); !equalVal(after, want) {
				res = evid.F("array-shared-with-source-variant", "%s(*Variant): after the source array was changed the copy reads %s, expected %s", c.Via, after, want)
			}
		}
	}); g != nil {
		return g
	}
	return res
}

func init() { regReplay("C20.host", checkC20Host) }

func c20HostCases() []c20Host {
	var out []c20Host
	add := func(goType string, vs ...val) {
		for _, v := range vs {
			for _, via := range []string{"NewVariant", "VariantFromObject", "SetAsObject", "typed"} {
				out = append(out, c20Host{goType, v, via})
			}
		}
	}
	ints := []val{vLong(0), vLong(1), vLong(-1), vLong(math.MaxInt32), vLong(math.MinInt32), vLong(math.MaxInt64), vLong(math.MinInt64), vLong(1 << 53)}
	add("int", ints...)
	add("int64", ints...)
	add("int32", vLong(0), vLong(1), vLong(-1), vLong(math.MaxInt32), vLong(math.MinInt32))
	add("uint", vLong(0), vLong(1), vLong(math.MaxInt32), vLong(math.MaxInt64))
	add("uint32", vLong(0), vLong(1), vLong(math.MaxUint32), vLong(math.MaxInt32))
	add("float32", vFloat(0), vFloat(1.5), vFloat(-2.25), vFloat(math.MaxFloat32), vFloat(float32(math.Inf(-1))), vFloat(float32(math.NaN())))
	add("float64", vDouble(0), vDouble(1.5), vDouble(-2.25), vDouble(math.MaxFloat64), vDouble(math.Inf(1)), vDouble(math.NaN()), vDouble(math.SmallestNonzeroFloat64))
	add("bool", vBool(true), vBool(false))
	add("string", vString(""), vString("abc"), vString("中文 é 😀"), vString("a\x00b"))
	add("time", vTime(time.Time{}), vTime(time.Unix(0, 0).UTC()), vTime(time.Date(2020, 2, 29, 1, 2, 3, 456, time.UTC)),
		// the zero instant in a zone of its own and in the process-local zone, an ordinary instant in another zone
		vTime(time.Time{}.In(east3)), vTime(time.Unix(-62135596800, 0)), vTime(time.Date(2024, 1, 1, 1, 30, 0, 0, east3)))
	add("duration", vSpan(0), vSpan(1), vSpan(-time.Hour), vSpan(math.MaxInt64))
	add("slice", vArray(), vArray(vInt(1)), vArray(vInt(1), vString("a"), vNull()), vArray(vArray(vInt(1)), vDouble(2.5)))
	add("variant", vNull(), vInt(5), vString("s"), vDouble(math.NaN()), vArray(), vArray(vInt(1), vString("a")), vArray(vArray(vInt(1)), vInt(2)), val{K: "object", S: "o"})
	add("nil", vNull())
	add("other", val{K: "object", S: "payload"})
	return out
}

// ---- (b) histories against a value model ----------------------------------------------------------

type c20Op struct {
	Op   string `json:"op"`
	Slot int    `json:"slot"`
	Src  int    `json:"src,omitempty"`
	Idx  int    `json:"idx,omitempty"`
	V    val    `json:"v,omitempty"`
}

type c20Case struct {
	Ops []c20Op `json:"ops"`
}

func hasNaN(v val) bool {
	if (v.K == "float" || v.K == "double") && v.F == "NaN" {
		return true
	}
	for _, e := range v.A {
		if hasNaN(e) {
			return true
		}
	}
	return false
}

func checkC20(c c20Case) *evid.Fail {
	const nSlots = 4
	var res *evid.Fail
	if g := guard(func() {
		slots := make([]*variants.Variant, nSlots)
		model := make([]val, nSlots)
		frozen := make([]bool, nSlots)                    // array shared through Assign: index writes are not modelled
		callerList := make([][]*variants.Variant, nSlots) // the list the caller built the array from, kept and reused later
		for i := range slots {
			slots[i] = variants.EmptyVariant()
			model[i] = vNull()
		}
		invariant := func(step int, op c20Op) bool {
			for i := range slots {
				if got := fromVariant(slots[i]); !equalVal(got, model[i]) {
					res = evid.F("model-mismatch:after-"+op.Op, "step %d %+v: variant #%d reads %s, the model holds %s (history %v)", step, op, i, got, model[i], c.Ops[:step+1])
					return false
				}
				if slots[i].Type() == variants.Array && slots[i].Length() != len(model[i].A) {
					res = evid.F("length-mismatch:after-"+op.Op, "step %d: variant #%d Length() = %d, model %d", step, i, slots[i].Length(), len(model[i].A))
					return false
				}
				if (slots[i].Type() == variants.Null) != slots[i].IsNull() {
					res = evid.F("isnull-mismatch", "step %d: variant #%d IsNull() disagrees with Type()", step, i)
					return false
				}
			}
			return true
		}
		for step, op := range c.Ops {
			s := op.Slot % nSlots
			v := slots[s]
			switch op.Op {
			case "set": // typed setter / SetAsObject with the matching host value
				switch op.V.K {
				case "int":
					v.SetAsInteger(int(op.V.I))
				case "long":
					v.SetAsLong(op.V.I)
				case "float":
					v.SetAsFloat(op.V.f32())
				case "double":
					v.SetAsDouble(op.V.f64())
				case "string":
					v.SetAsString(op.V.S)
				case "bool":
					v.SetAsBoolean(op.V.I != 0)
				case "timespan":
					v.SetAsTimeSpan(op.V.dur())
				case "datetime":
					v.SetAsDateTime(op.V.toTime())
				case "object":
					v.SetAsObject(objPayload{op.V.S})
				case "null":
					v.SetAsObject(nil)
				case "array":
					// the caller's list has spare capacity, as lists built with append usually do;
					// equal elements are one and the same *Variant object (a row used twice)
					list := make([]*variants.Variant, len(op.V.A), len(op.V.A)+4)
					shared := map[string]*variants.Variant{}
					for i, e := range op.V.A {
						k := jsonStr(e)
						if shared[k] == nil {
							shared[k] = e.toVariant()
						}
						list[i] = shared[k]
					}
					v.SetAsArray(list)
					// the caller goes on using its list
					if len(list) > 0 {
						list[len(list)-1] = variants.VariantFromString("caller's change")
					}
					callerList[s] = list
				}
				model[s] = op.V
				frozen[s] = false
			case "callerAppend":
				// the caller appends to (and overwrites in) the list it once handed over
				if callerList[s] == nil {
					continue
				}
				callerList[s] = append(callerList[s], variants.VariantFromString("caller's append"))
				callerList[s][0] = variants.VariantFromString("caller's overwrite")
			case "fromArray":
				list := make([]*variants.Variant, len(op.V.A), len(op.V.A)+4)
				if len(op.V.A) == 0 && op.Idx%2 == 0 {
					list = nil // an empty list the way Go code usually has it: a nil slice
				}
				for i, e := range op.V.A {
					list[i] = e.toVariant()
				}
				slots[s] = variants.VariantFromArray(list)
				if len(list) > 0 {
					list[0] = variants.VariantFromString("caller's change")
				}
				callerList[s] = list
				model[s] = vArray(op.V.A...)
				frozen[s] = false
			case "setByIndex":
				if model[s].K != "array" || frozen[s] {
					continue
				}
				idx := op.Idx % (len(model[s].A) + 3)
				v.SetByIndex(idx, op.V.toVariant())
				a := append([]val{}, model[s].A...)
				for len(a) <= idx {
					a = append(a, vNull())
				}
				a[idx] = op.V
				model[s] = vArray(a...)
			case "setLength":
				if model[s].K != "array" || frozen[s] {
					continue
				}
				n := len(model[s].A) + op.Idx%4
				v.SetLength(n)
				a := append([]val{}, model[s].A...)
				for len(a) < n {
					a = append(a, vNull())
				}
				model[s] = vArray(a...)
			case "growFill":
				// SetLength grows the array by two or more, then one of the new nulls is given a value in place
				if model[s].K != "array" || frozen[s] {
					continue
				}
				n0 := len(model[s].A)
				v.SetLength(n0 + 2 + op.Idx%3)
				a := append([]val{}, model[s].A...)
				for len(a) < n0+2+op.Idx%3 {
					a = append(a, vNull())
				}
				g := n0 + op.Idx%2
				v.GetByIndex(g).SetAsString("filled in place")
				a[g] = vString("filled in place")
				model[s] = vArray(a...)
			case "fillGap":
				// SetByIndex two or more past the end, then one of the filler nulls is given a value in place
				if model[s].K != "array" || frozen[s] {
					continue
				}
				n0 := len(model[s].A)
				idx := n0 + 2 + op.Idx%3
				v.SetByIndex(idx, op.V.toVariant())
				a := append([]val{}, model[s].A...)
				for len(a) <= idx {
					a = append(a, vNull())
				}
				a[idx] = op.V
				g := n0 + op.Idx%2
				v.GetByIndex(g).SetAsString("filled in place")
				a[g] = vString("filled in place")
				model[s] = vArray(a...)
			case "getByIndex":
				if model[s].K != "array" || len(model[s].A) == 0 {
					continue
				}
				idx := op.Idx % len(model[s].A)
				if got := fromVariant(v.GetByIndex(idx)); !equalVal(got, model[s].A[idx]) {
					res = evid.F("getbyindex-wrong-element", "step %d: #%d.GetByIndex(%d) = %s, model %s", step, s, idx, got, model[s].A[idx])
					return
				}
			case "assign":
				src := op.Src % nSlots
				v.Assign(slots[src])
				model[s] = model[src]
				if model[src].K == "array" && src != s {
					// whether an assigned array is shared is not stated: stop index writes on both
					frozen[s], frozen[src] = true, true
				}
			case "assignNil":
				v.Assign(nil)
				model[s] = vNull()
				frozen[s] = false
			case "clone":
				src := op.Src % nSlots
				cl := slots[src].Clone()
				if cl == slots[src] {
					res = evid.F("clone-is-same-object", "step %d: Clone returned the receiver itself", step)
					return
				}
				if !hasNaN(model[src]) {
					e1, e2 := cl.Equals(slots[src]), slots[src].Equals(cl)
					if !e1 || !e2 {
						res = evid.F("clone-not-equal", "step %d: clone of #%d (%s): clone.Equals(original)=%v original.Equals(clone)=%v", step, src, model[src], e1, e2)
						return
					}
				}
				slots[s] = cl
				model[s] = model[src]
				frozen[s] = false // the clone owns its list: index writes on it must not reach the original
			case "clear":
				v.Clear()
				model[s] = vNull()
				frozen[s] = false
			case "equals":
				o := op.Src % nSlots
				e1, e2 := slots[s].Equals(slots[o]), slots[o].Equals(slots[s])
				if e1 != e2 {
					res = evid.F("equals-asymmetric", "step %d: #%d.Equals(#%d)=%v but the converse is %v (%s vs %s)", step, s, o, e1, e2, model[s], model[o])
					return
				}
				if !hasNaN(model[s]) && !hasNaN(model[o]) {
					if want := equalVal(model[s], model[o]); e1 != want {
						sig := "equals-wrong"
						if model[s].K == "array" && model[o].K == "array" {
							sig = "equals-wrong:arrays"
						}
						res = evid.F(sig, "step %d: Equals(%s, %s) = %v, expected %v", step, model[s], model[o], e1, want)
						return
					}
				}
				if slots[s].Equals(nil) {
					res = evid.F("equals-nil-true", "Equals(nil) returned true")
					return
				}
			case "operand":
				// the variant is used as the first operand of the library's own operators (the second operand is another
				// slot) and as an argument of functions: using a value does not change it - the model stays as it is
				o := slots[op.Src%nSlots]
				for _, mgr := range []variants.IVariantOperations{variants.NewTypeUnsafeVariantOperations(), variants.NewTypeSafeVariantOperations()} {
					mgr.Pow(v, o)
					mgr.Add(v, o)
					mgr.Negative(v)
					mgr.Lsh(v, o)
					mgr.In(v, o)
					mgr.More(v, o)
				}
			case "viaVariable":
				// the variant is handed to a calculator variable, which is then given another slot's variant and cleared
				// within a collection: a variable holds a value, it does not write into it
				vr := variables.NewVariable("held", v)
				vr.SetValue(slots[op.Src%nSlots])
				vr.SetValue(v)
				vc := variables.NewVariableCollection()
				vc.Add(vr)
				vc.ClearValues()
			}
			if !invariant(step, op) {
				return
			}
		}
	}); g != nil {
		g.Msg = fmt.Sprintf("history %v: %s", c.Ops, g.Msg)
		return g
	}
	return res
}

func init() { regReplay("C20", checkC20) }

const c20Rule = "(a) host values of every supported Go type through NewVariant / VariantFromObject / SetAsObject / typed constructors, with later changes to the caller's list or source variant; (b) histories of set / fromArray / setByIndex / setLength / getByIndex / assign / clone / clear / equals over 4 variants against a deep value model checked after every step; non-trivial = an array mutation after a clone or array set, or an Equals on arrays / Null / NaN; distinct by case"

func c20NonTrivial(c c20Case) bool {
	arrayMade := false
	for _, op := range c.Ops {
		switch op.Op {
		case "set", "fromArray":
			if op.V.K == "array" || op.Op == "fromArray" {
				arrayMade = true
			}
		case "clone":
			arrayMade = true
		case "setByIndex", "setLength", "callerAppend", "fillGap", "growFill":
			if arrayMade {
				return true
			}
		case "equals":
			return true
		}
	}
	return false
}

func TestC20_ExhaustiveHostValues(t *testing.T) {
	rec := evid.New("C20", "TestC20_ExhaustiveHostValues", "C20.host", c20Rule)
	rec.Exhaustive = true
	rec.DupFree = true
	defer finish(t, rec)
	cases := c20HostCases()
	rec.Bounds = fmt.Sprintf("%d (Go type, boundary value, constructor) combinations: int int32 uint uint32 int64 float32 float64 bool string time.Time time.Duration []*Variant *Variant nil other x NewVariant / VariantFromObject / SetAsObject / typed constructor", len(cases))
	for _, c := range cases {
		rec.Case(jsonStr(c), true, func() interface{} { return c }, "gotype:"+c.GoType)
		if f := checkC20Host(c); f != nil {
			rec.Fail(f, c)
		}
	}
}

func genC20Elem(t *rapid.T) val {
	return rapid.SampledFrom([]val{vNull(), vInt(0), vLong(0), vDouble(0), vString("0"), vBool(false), vSpan(0), vInt(1), vInt(2), vLong(3), vDouble(2.5), vDouble(math.NaN()), vString("a"), vString(""), vBool(true), vSpan(time.Second),
		vTime(time.Unix(1600000000, 0).UTC()), vArray(), vArray(vInt(1)), vArray(vInt(1), vInt(2)), vArray(vInt(1), vInt(2)), vArray(vInt(1), vInt(3)), val{K: "object", S: "o"}}).Draw(t, "el")
}

func genC20Value(t *rapid.T) val {
	if rapid.IntRange(0, 2).Draw(t, "arr") == 0 {
		n := rapid.IntRange(0, 4).Draw(t, "n")
		var els []val
		for i := 0; i < n; i++ {
			els = append(els, genC20Elem(t))
		}
		return vArray(els...)
	}
	return genC20Elem(t)
}

func TestC20_RapidSM(t *testing.T) {
	rec := evid.New("C20", "TestC20_RapidSM", "C20", c20Rule)
	defer finish(t, rec)
	opsKinds := []string{"set", "set", "fromArray", "setByIndex", "setByIndex", "setLength", "getByIndex", "assign", "assignNil", "clone", "clone", "clear", "equals", "equals", "callerAppend", "callerAppend", "fillGap", "growFill", "operand", "viaVariable"}
	runRapid(t, pick(40000, 300000), 20, func(rt *rapid.T) {
		n := rapid.IntRange(1, 14).Draw(rt, "n")
		var ops []c20Op
		for i := 0; i < n; i++ {
			op := c20Op{Op: rapid.SampledFrom(opsKinds).Draw(rt, "op"), Slot: rapid.IntRange(0, 3).Draw(rt, "slot"), Src: rapid.IntRange(0, 3).Draw(rt, "src"), Idx: rapid.IntRange(0, 7).Draw(rt, "idx")}
			switch op.Op {
			case "set":
				op.V = genC20Value(rt)
			case "fromArray":
				v := genC20Value(rt)
				if v.K != "array" {
					v = vArray(v)
				}
				op.V = v
			case "setByIndex", "fillGap", "growFill":
				op.V = genC20Elem(rt)
			}
			ops = append(ops, op)
		}
		c := c20Case{ops}
		var labels []string
		for _, o := range ops {
			labels = append(labels, "op:"+o.Op)
		}
		rec.Case(jsonStr(c), c20NonTrivial(c), func() interface{} { return c }, labels...)
		if f := checkC20(c); f != nil {
			if rec.Fail(f, c) {
				rt.Fatalf("%v", f)
			}
		}
	})
}

func TestC20_ExhaustiveShortHistories(t *testing.T) {
	rec := evid.New("C20", "TestC20_ExhaustiveShortHistories", "C20", c20Rule)
	rec.Exhaustive = true
	rec.DupFree = true
	defer finish(t, rec)
	// a small operation alphabet over two variants, all histories of length <= 4 (quick) / 5 (thorough)
	arr := vArray(vInt(1), vString("a"))
	alpha := []c20Op{
		{Op: "set", Slot: 0, V: arr}, {Op: "set", Slot: 0, V: vInt(7)}, {Op: "fromArray", Slot: 1, V: vArray(vNull())},
		{Op: "setByIndex", Slot: 0, Idx: 0, V: vString("w")}, {Op: "setByIndex", Slot: 1, Idx: 2, V: vInt(9)}, {Op: "setLength", Slot: 1, Idx: 2},
		{Op: "clone", Slot: 1, Src: 0}, {Op: "clone", Slot: 0, Src: 1}, {Op: "assign", Slot: 1, Src: 0}, {Op: "clear", Slot: 0},
		{Op: "equals", Slot: 0, Src: 1}, {Op: "getByIndex", Slot: 1, Idx: 0},
		{Op: "set", Slot: 1, V: vArray()}, {Op: "callerAppend", Slot: 1}, {Op: "callerAppend", Slot: 0}, {Op: "fillGap", Slot: 1, Idx: 1, V: vInt(5)}, {Op: "growFill", Slot: 1, Idx: 1}, {Op: "fromArray", Slot: 0, V: vArray()},
		{Op: "set", Slot: 0, V: vArray(vArray(vInt(1), vInt(2)), vArray(vInt(1), vInt(2)))}, {Op: "set", Slot: 1, V: vArray(vArray(vInt(1), vInt(2)), vArray(vInt(1), vInt(3)))},
		{Op: "set", Slot: 1, V: vInt(0)}, {Op: "set", Slot: 0, V: vString("abc")}, {Op: "set", Slot: 1, V: vDouble(1.5)}, {Op: "operand", Slot: 1, Src: 0}, {Op: "viaVariable", Slot: 0, Src: 1}, {Op: "viaVariable", Slot: 1, Src: 0},
	}
	depth := pick(4, 5)
	rec.Bounds = fmt.Sprintf("all histories of length 1..%d over %d operations on two variants (array set, scalar set, fromArray, index writes inside and past the end, setLength, clone both ways, assign, clear, equals, getByIndex)", depth, len(alpha))
	idx := make([]string, len(alpha))
	for i := range alpha {
		idx[i] = fmt.Sprint(i)
	}
	enumStrings(idx, depth, false, func(parts []string) {
		ops := make([]c20Op, len(parts))
		for i, p := range parts {
			var k int
			fmt.Sscan(p, &k)
			ops[i] = alpha[k]
		}
		c := c20Case{ops}
		rec.Case(fmt.Sprint(parts), c20NonTrivial(c), func() interface{} { return c })
		if f := checkC20(c); f != nil {
			rec.Fail(f, c)
		}
	})
}

// ---------------------------------------------------------------------------------------
// Object variants: "equality is symmetric and never fails", "a clone equals its original" for host values of Go types
// the library has no variant type for. The payloads cover every way a Go value can be (un)comparable: comparable
// structs and pointers, slices / maps / functions / channels, structs and arrays that contain those directly (static
// type not comparable) and behind an interface field (static type comparable, comparison fails at run time).

type c20ObjKind struct {
	name      string
	mk        func() interface{} // a fresh, equal value per call
	reflexive bool               // DeepEqual(p, p): false for payloads containing functions or NaN
}

type c20Wrap struct{ I interface{} }

var c20SharedPtr = &objPayload{"shared"}
var c20SharedChan = make(chan int)

func c20ObjKinds() []c20ObjKind {
	return []c20ObjKind{
		{"struct", func() interface{} { return objPayload{"a"} }, true},
		{"struct2", func() interface{} { return objPayload{"b"} }, true},
		{"pointer", func() interface{} { return c20SharedPtr }, true},
		{"freshpointer", func() interface{} { return &objPayload{"a"} }, true},
		{"slice", func() interface{} { return []int{1, 2} }, true},
		{"emptyslice", func() interface{} { return []int{} }, true},
		{"map", func() interface{} { return map[string]int{"a": 1} }, true},
		{"func", func() interface{} { return func() int { return 1 } }, false},
		{"chan", func() interface{} { return c20SharedChan }, true},
		{"struct-with-slice", func() interface{} { return struct{ A []int }{[]int{1}} }, true},
		{"struct-with-map", func() interface{} { return struct{ M map[string]int }{map[string]int{"k": 2}} }, true},
		{"array-of-slices", func() interface{} { return [2][]int{{1}, {2}} }, true},
		{"nested-struct-with-slice", func() interface{} { return struct{ S struct{ A []string } }{struct{ A []string }{[]string{"x"}}} }, true},
		{"iface-field-int", func() interface{} { return c20Wrap{1} }, true},
		{"iface-field-slice", func() interface{} { return c20Wrap{[]int{1}} }, true},
		{"iface-field-map", func() interface{} { return c20Wrap{map[int]int{1: 1}} }, true},
		{"array-of-iface-slice", func() interface{} { return [1]interface{}{[]int{1}} }, true},
		{"slice-of-iface", func() interface{} { return []interface{}{[]int{1}, "s", nil} }, true},
		{"struct-with-func", func() interface{} { return struct{ F func() }{func() {}} }, false},
		{"struct-with-nan", func() interface{} { return struct{ X float64 }{math.NaN()} }, false},
		{"iface-field-nan", func() interface{} { return c20Wrap{math.NaN()} }, false},
		{"error", func() interface{} { return fmt.Errorf("boom") }, true},
		{"byte-slice", func() interface{} { return []byte("ab") }, true},
		{"complex", func() interface{} { return complex(1, 2) }, true},
		{"uint8", func() interface{} { return uint8(7) }, true},
		// host values that are nil inside: a typed nil pointer, map, slice, function (an Object holding that value, not Null)
		{"nil-pointer", func() interface{} { return (*objPayload)(nil) }, true},
		{"nil-map", func() interface{} { return map[string]int(nil) }, true},
		{"nil-slice", func() interface{} { return []string(nil) }, true},
		{"nil-func", func() interface{} { return (func())(nil) }, true},
		{"struct-with-nil-pointer", func() interface{} { return struct{ P *int }{nil} }, true},
	}
}

type c20ObjCase struct {
	A    int    `json:"a"` // payload kinds (indexes into c20ObjKinds)
	B    int    `json:"b"`
	ViaA string `json:"viaA"` // VariantFromObject | NewVariant | SetAsObject | setOverArray
	ViaB string `json:"viaB"` // the same, or clone | assign (of the first variant; B is ignored)
	Wrap int    `json:"wrap"` // 0: compared as they are; 1: each as the only element of an array variant; 2: nested two deep
}

func c20ObjBuild(via string, host interface{}) *variants.Variant {
	switch via {
	case "NewVariant":
		return variants.NewVariant(host)
	case "SetAsObject":
		v := variants.EmptyVariant()
		v.SetAsObject(host)
		return v
	case "setOverArray":
		v := variants.VariantFromArray([]*variants.Variant{variants.VariantFromInteger(1)})
		v.SetAsObject(host)
		return v
	}
	return variants.VariantFromObject(host)
}

func checkC20Obj(c c20ObjCase) (res *evid.Fail) {
	kinds := c20ObjKinds()
	if c.A < 0 || c.A >= len(kinds) || c.B < 0 || c.B >= len(kinds) {
		return nil
	}
	ka, kb := kinds[c.A], kinds[c.B]
	if g := guard(func() {
		pa := ka.mk()
		a := c20ObjBuild(c.ViaA, pa)
		if a.Type() != variants.Object {
			res = evid.F("object-wrong-type:"+ka.name, "%s(%s payload) reports type %s", c.ViaA, ka.name, vtName(a.Type()))
			return
		}
		if got := a.AsObject(); got == nil || reflect.TypeOf(got) != reflect.TypeOf(pa) {
			res = evid.F("object-payload-changed:"+ka.name, "%s(%s payload): AsObject returns a %T, the payload is a %T", c.ViaA, ka.name, got, pa)
			return
		}
		if ka.reflexive && !reflect.DeepEqual(a.AsObject(), pa) {
			res = evid.F("object-payload-changed:"+ka.name, "%s(%s payload): AsObject returns %#v", c.ViaA, ka.name, a.AsObject())
			return
		}
		var b *variants.Variant
		copyOfA := false
		switch c.ViaB {
		case "clone":
			b, copyOfA, kb = a.Clone(), true, ka
		case "assign":
			b = variants.VariantFromInteger(3)
			b.Assign(a)
			copyOfA, kb = true, ka
		default:
			b = c20ObjBuild(c.ViaB, kb.mk())
		}
		for i := 0; i < c.Wrap; i++ {
			a = variants.VariantFromArray([]*variants.Variant{a})
			b = variants.VariantFromArray([]*variants.Variant{b})
		}
		desc := fmt.Sprintf("%s[%s] vs %s[%s], wrap %d", ka.name, c.ViaA, kb.name, c.ViaB, c.Wrap)
		var ab, ba, aa bool
		if g := guard(func() { ab = a.Equals(b) }); g != nil {
			res = evid.F("equals-fails:object:"+ka.name, "%s: a.Equals(b): %s", desc, g.Msg)
			return
		}
		if g := guard(func() { ba = b.Equals(a) }); g != nil {
			res = evid.F("equals-fails:object:"+kb.name, "%s: b.Equals(a): %s", desc, g.Msg)
			return
		}
		if g := guard(func() { aa = a.Equals(a) }); g != nil {
			res = evid.F("equals-fails:object:"+ka.name, "%s: a.Equals(a): %s", desc, g.Msg)
			return
		}
		if ab != ba {
			res = evid.F("equals-asymmetric:object", "%s: a.Equals(b)=%v, b.Equals(a)=%v", desc, ab, ba)
			return
		}
		if ka.reflexive && !aa {
			res = evid.F("equals-not-reflexive:object:"+ka.name, "%s: a.Equals(a) is false", desc)
			return
		}
		if copyOfA && ka.reflexive && !ab {
			res = evid.F("copy-differs:object:"+ka.name, "%s: the %s of a variant does not equal it", desc, c.ViaB)
			return
		}
		if c.A != c.B && !copyOfA && ab {
			// payloads of different Go types (or different content) are never equal
			res = evid.F("different-objects-equal", "%s: reported equal", desc)
			return
		}
	}); g != nil {
		return g
	}
	return res
}

func init() { regReplay("C20.obj", checkC20Obj) }

func TestC20_EnumObjectPayloads(t *testing.T) {
	rec := evid.New("C20", "TestC20_EnumObjectPayloads", "C20.obj", "Object variants over host values of every comparability class (comparable struct / pointer / channel, slice, map, function, struct or array containing those directly or behind an interface field, NaN inside): Type is Object, AsObject returns the payload, Equals never fails, is symmetric, a variant equals itself, its clone and a variant it was assigned to (payloads containing functions or NaN excepted), payloads of different kinds are unequal; also as elements of array variants; non-trivial = a payload that is not a plain comparable value; distinct by case")
	rec.Exhaustive = true
	rec.DupFree = true
	defer finish(t, rec)
	kinds := c20ObjKinds()
	vias := []string{"VariantFromObject", "NewVariant", "SetAsObject", "setOverArray"}
	rec.Bounds = fmt.Sprintf("%d payload kinds x %d payload kinds x 4 constructors x (4 constructors + clone + assign) x {plain, in an array, nested two deep}", len(kinds), len(kinds))
	for a := range kinds {
		for b := range kinds {
			for _, va := range vias {
				for _, vb := range append([]string{"clone", "assign"}, vias...) {
					if (vb == "clone" || vb == "assign") && b != 0 {
						continue
					}
					for wrap := 0; wrap <= 2; wrap++ {
						c := c20ObjCase{a, b, va, vb, wrap}
						rec.Case(jsonStr(c), a > 1 || b > 1, func() interface{} { return c }, "payload:"+kinds[a].name)
						if f := checkC20Obj(c); f != nil {
							rec.Fail(f, c)
						}
					}
				}
			}
		}
	}
}
