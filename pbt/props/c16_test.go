package props

import (
	"fmt"
	"strings"
	"testing"

	ctok "github.com/pip-services3-gox/pip-services3-expressions-gox/calculator/tokenizers"
	rio "github.com/pip-services3-gox/pip-services3-expressions-gox/io"
	"github.com/pip-services3-gox/pip-services3-expressions-gox/tokenizers"
	"github.com/pip-services3-gox/pip-services3-expressions-gox/tokenizers/generic"
	"pgregory.net/rapid"
	"verif/pbt/evid"
)

// C16 — symbol tables return the longest registered symbol with its own type.

type c16Case struct {
	Symbols []string `json:"symbols"` // registration order; symbol i gets token type 100+i unless Types says otherwise
	Probes  []string `json:"probes"`
	// State: "" / "generic" = a fresh GenericSymbolState; "expression" = the expression tokenizer's symbol state, which
	// starts with <= >= <> != >> << registered as Symbol
	State string `json:"state,omitempty"`
	Types []int  `json:"types,omitempty"` // token type of symbol i (any int: small, large, with high bits, negative)
}

func (c c16Case) typeOf(i int) int {
	if i < len(c.Types) {
		return c.Types[i]
	}
	return 100 + i
}

func c16Expect(registered map[string]int, input []rune) (string, int) {
	best := ""
	bestType := tokenizers.Symbol
	for l := 1; l <= len(input); l++ {
		if t, ok := registered[string(input[:l])]; ok {
			best, bestType = string(input[:l]), t
		}
	}
	if best == "" {
		return string(input[:1]), tokenizers.Symbol
	}
	return best, bestType
}

func checkC16(c c16Case) *evid.Fail {
	var res *evid.Fail
	if g := guard(func() {
		var st tokenizers.ISymbolState = generic.NewGenericSymbolState()
		registered := map[string]int{}
		if c.State == "expression" {
			st = ctok.NewExpressionSymbolState()
			for _, s := range []string{"<=", ">=", "<>", "!=", ">>", "<<"} {
				registered[s] = tokenizers.Symbol
			}
		}
		probe := func(step int, p string) bool {
			rs := []rune(p)
			if len(rs) == 0 {
				return true
			}
			sc := rio.NewStringScanner(p)
			tk := st.NextToken(sc, nil)
			wantText, wantType := c16Expect(registered, rs)
			if tk == nil {
				res = evid.F("nil-token", "symbols %q: NextToken(%q) returned nil", c.Symbols[:step], p)
				return false
			}
			if tk.Value() != wantText || tk.Type() != wantType {
				sig := "wrong-symbol"
				switch {
				case tk.Value() == wantText:
					sig = "wrong-type"
				case len([]rune(tk.Value())) == len([]rune(wantText)):
					sig = "wrong-text-same-length"
				case len([]rune(tk.Value())) < len([]rune(wantText)):
					sig = "not-longest"
				default:
					sig = "unregistered-prefix-or-overlong"
				}
				res = evid.F(sig, "after registering %q in this order, NextToken(%q) = %s(%q), want %s(%q)",
					c.Symbols[:step], p, tokTypeName(tk.Type()), tk.Value(), tokTypeName(wantType), wantText)
				return false
			}
			var rest []rune
			for ch := sc.Read(); ch != -1; ch = sc.Read() {
				rest = append(rest, ch)
			}
			if string(rest) != string(rs[len([]rune(wantText)):]) {
				res = evid.F("scanner-position", "after registering %q, NextToken(%q) = %q leaves the scanner before %q, want %q",
					c.Symbols[:step], p, tk.Value(), string(rest), string(rs[len([]rune(wantText)):]))
				return false
			}
			return true
		}
		for i, s := range c.Symbols {
			st.Add(s, c.typeOf(i))
			registered[s] = c.typeOf(i)
			// all probes, then again in reverse order, on the same state instance
			for _, p := range c.Probes {
				if !probe(i+1, p) {
					return
				}
			}
			for j := len(c.Probes) - 1; j >= 0; j-- {
				if !probe(i+1, c.Probes[j]) {
					return
				}
			}
		}
	}); g != nil {
		return g
	}
	return res
}

func init() { regReplay("C16", checkC16) }

func c16NonTrivial(symbols []string) bool {
	set := map[string]bool{}
	for _, s := range symbols {
		set[s] = true
	}
	for _, s := range symbols {
		rs := []rune(s)
		for l := 1; l < len(rs); l++ {
			pre := string(rs[:l])
			if !set[pre] && l >= 2 {
				return true // a registered symbol whose proper multi-char prefix is unregistered
			}
			for _, o := range symbols {
				if o != s && strings.HasPrefix(o, pre) {
					return true // two symbols sharing a proper prefix
				}
			}
		}
	}
	return false
}

const c16Rule = "symbol set (registration order, distinct token types) x probe inputs, re-probed after every Add in two orders on one state instance; oracle: longest registered prefix, else the first character as Symbol; scanner must stand right behind the returned text; non-trivial = two symbols share a proper prefix or a registered symbol has an unregistered proper prefix of length >= 2; distinct by registration sequence"

func splitmix(x *uint64) uint64 {
	*x += 0x9e3779b97f4a7c15
	z := *x
	z = (z ^ (z >> 30)) * 0xbf58476d1ce4e5b9
	z = (z ^ (z >> 27)) * 0x94d049bb133111eb
	return z ^ (z >> 31)
}

func permutations(xs []string) [][]string {
	if len(xs) <= 1 {
		return [][]string{append([]string{}, xs...)}
	}
	var out [][]string
	for i := range xs {
		rest := append(append([]string{}, xs[:i]...), xs[i+1:]...)
		for _, p := range permutations(rest) {
			out = append(out, append([]string{xs[i]}, p...))
		}
	}
	return out
}

func TestC16_Exhaustive(t *testing.T) {
	rec := evid.New("C16", "TestC16_Exhaustive", "C16", c16Rule)
	rec.Exhaustive = true
	rec.DupFree = true
	defer finish(t, rec)
	var universe []string
	enumSerial([]string{"a", "b"}, 3, func(p []string) {
		if len(p) > 0 {
			universe = append(universe, strings.Join(p, ""))
		}
	})
	var probes []string
	enumSerial([]string{"a", "b", "c"}, 4, func(p []string) {
		if len(p) > 0 {
			probes = append(probes, strings.Join(p, ""))
		}
	})
	extraOrders := pick(1, 4)
	rec.Bounds = fmt.Sprintf("every non-empty subset of the %d strings of length 1..3 over {a,b} (%d sets); all registration orders for sets of size <= 3, canonical + %d seeded orders otherwise; %d probes (all strings of length 1..4 over {a,b,c}) after every Add, forwards and backwards",
		len(universe), (1<<len(universe))-1, extraOrders, len(probes))
	parallelFor(1<<len(universe), func(mask int) {
		if mask == 0 {
			return
		}
		var set []string
		for i, s := range universe {
			if mask&(1<<i) != 0 {
				set = append(set, s)
			}
		}
		var orders [][]string
		if len(set) <= 3 {
			orders = permutations(set)
		} else {
			orders = append(orders, set)
			x := verifSeed()*1000003 + uint64(mask)
			for k := 0; k < extraOrders; k++ {
				o := append([]string{}, set...)
				for i := len(o) - 1; i > 0; i-- {
					j := int(splitmix(&x) % uint64(i+1))
					o[i], o[j] = o[j], o[i]
				}
				orders = append(orders, o)
			}
		}
		for _, o := range orders {
			c := c16Case{Symbols: o, Probes: probes}
			rec.Case(strings.Join(o, ","), c16NonTrivial(o), func() interface{} { return map[string]interface{}{"symbols": o, "probes": len(probes)} }, fmt.Sprintf("size:%d", len(o)))
			if f := checkC16(c); f != nil {
				rec.Fail(f, c)
			}
		}
	})
}

// Every character U+0001..U+FFFE as a member of symbols: as first character, as a later character, repeated, and in a
// symbol longer than any built-in one; probed with the neighbouring code point in its place as well.
func TestC16_EnumEveryCharacter(t *testing.T) {
	rec := evid.New("C16", "TestC16_EnumEveryCharacter", "C16", c16Rule)
	rec.Exhaustive = true
	rec.DupFree = true
	defer finish(t, rec)
	rec.Bounds = "for every character r in U+0001..U+FFFE (surrogates excluded): symbols {<r, r=, rrr, <r-->>==} registered in that order, 13 probes with r, with its neighbour code point and with the characters U+10000+r / U+20000+r in its place"
	parallelFor(0xfffe, func(i int) {
		r := rune(i + 1)
		if (r >= 0xd800 && r <= 0xdfff) || r == '<' || r == '=' || r == '-' || r == '>' || r == 'x' {
			return
		}
		n := r + 1
		if n > 0xfffe || (n >= 0xd800 && n <= 0xdfff) || n == '<' || n == '=' || n == '-' || n == '>' || n == 'x' {
			n = r - 2
		}
		if n < 1 {
			n = 5
		}
		R, N := string(r), string(n)
		// characters beyond the BMP whose low 16 bits are r: they are other characters
		A1, A2 := string(0x10000+r), string(0x20000+r)
		c := c16Case{Symbols: []string{"<" + R, R + "=", R + R + R, "<" + R + "-->>=="},
			Probes: []string{"<" + R + "x", R + "=x", "<" + N + "x", N + "=", R + "x", R + R + R + R, R + R + "x", "<" + R + "-->>==x", "<" + R + "-->>=x",
				"<" + A1 + "x", A1 + "=", A2 + "=x", R + A1 + R}}
		rec.Case(R, true, func() interface{} { return c })
		if f := checkC16(c); f != nil {
			rec.Fail(f, c)
		}
	})
}

// A symbol registered again carries the type of its latest registration - also when that type is the plain Symbol
// type and the symbol a single character, and with other symbols sharing its first character.
func TestC16_EnumReRegistration(t *testing.T) {
	rec := evid.New("C16", "TestC16_EnumReRegistration", "C16", c16Rule)
	rec.Exhaustive = true
	rec.DupFree = true
	defer finish(t, rec)
	types := []int{tokenizers.Symbol, tokenizers.Keyword, tokenizers.Special, 100, tokenizers.Word}
	syms := []string{"<", ";", "é", "≤", "<=", "<=>", "≤≥"}
	rec.Bounds = fmt.Sprintf("%d symbols x %d x %d ordered type pairs x {alone, with a longer symbol registered before, in between, after} x 2 symbol states", len(syms), len(types), len(types))
	for _, sym := range syms {
		for _, t1 := range types {
			for _, t2 := range types {
				for arrangement := 0; arrangement < 4; arrangement++ {
					for _, state := range []string{"", "expression"} {
						longer := sym + "~"
						c := c16Case{State: state, Probes: []string{sym + "x", sym, longer + "x", "x" + sym}}
						switch arrangement {
						case 0:
							c.Symbols, c.Types = []string{sym, sym}, []int{t1, t2}
						case 1:
							c.Symbols, c.Types = []string{longer, sym, sym}, []int{101, t1, t2}
						case 2:
							c.Symbols, c.Types = []string{sym, longer, sym}, []int{t1, 101, t2}
						default:
							c.Symbols, c.Types = []string{sym, sym, longer}, []int{t1, t2, 101}
						}
						rec.Case(jsonStr(c), true, func() interface{} { return c }, "state:"+state)
						if f := checkC16(c); f != nil {
							rec.Fail(f, c)
						}
					}
				}
			}
		}
	}
}

func TestC16_Rapid(t *testing.T) {
	rec := evid.New("C16", "TestC16_Rapid", "C16", c16Rule+"; rapid: sets of 1..8 symbols of length 1..4 over {< > = ! - : é 中} in random order, probes over the same alphabet plus x")
	defer finish(t, rec)
	alpha := []rune{'<', '>', '=', '!', '-', ':', 'é', '中', '≠', '≤', '≥', '←', '→', '«', 0xfe, 0xff, 0x100, 0x101, 0xfffe}
	genStr := func(rt *rapid.T, maxLen int, extra bool, label string) string {
		n := rapid.IntRange(1, maxLen).Draw(rt, label+"len")
		var sb strings.Builder
		for i := 0; i < n; i++ {
			if extra && rapid.IntRange(0, 7).Draw(rt, label+"x") == 0 {
				sb.WriteRune('x')
			} else {
				sb.WriteRune(rapid.SampledFrom(alpha).Draw(rt, label+"ch"))
			}
		}
		return sb.String()
	}
	wide := []rune("!#$%&*+-/:<=>?@^|~\\abcdefgh≠≤≥←→↔中文字«»")
	runRapid(t, pick(20000, 150000), 16, func(rt *rapid.T) {
		n := rapid.IntRange(1, 8).Draw(rt, "n")
		seen := map[string]bool{}
		var syms []string
		if rapid.IntRange(0, 9).Draw(rt, "wide") == 0 {
			// wide fan-out: many symbols that share a prefix and continue with different characters
			prefix := rapid.SampledFrom([]string{"", "#", "<-", "中"}).Draw(rt, "prefix")
			k := rapid.IntRange(9, len(wide)).Draw(rt, "fan")
			perm := rapid.Permutation(wide).Draw(rt, "perm")
			for _, r := range perm[:k] {
				s := prefix + string(r)
				if rapid.IntRange(0, 4).Draw(rt, "deeper") == 0 {
					s += string(rapid.SampledFrom(wide).Draw(rt, "d2"))
				}
				if !seen[s] {
					seen[s] = true
					syms = append(syms, s)
				}
			}
			n = 0
		}
		for i := 0; i < n; i++ {
			s := genStr(rt, rapid.SampledFrom([]int{4, 4, 4, 9}).Draw(rt, "maxsymlen"), false, "sym")
			if rapid.IntRange(0, 2).Draw(rt, "extend") == 0 && len(syms) > 0 {
				// extend an existing symbol so that shared prefixes are common
				s = syms[rapid.IntRange(0, len(syms)-1).Draw(rt, "base")] + genStr(rt, 2, false, "ext")
			}
			if !seen[s] || rapid.IntRange(0, 5).Draw(rt, "again") == 0 {
				// now and then a symbol is registered again (with its next token type): the latest registration counts
				seen[s] = true
				syms = append(syms, s)
			}
		}
		var probes []string
		if len(syms) > 8 {
			for _, s := range syms {
				probes = append(probes, s+"x")
			}
		}
		for i := 0; i < 12; i++ {
			p := genStr(rt, 6, true, "probe")
			if rapid.Bool().Draw(rt, "fromsym") {
				p = syms[rapid.IntRange(0, len(syms)-1).Draw(rt, "psym")] + p
			}
			probes = append(probes, p)
		}
		c := c16Case{Symbols: syms, Probes: probes}
		if rapid.IntRange(0, 2).Draw(rt, "exprstate") == 0 {
			c.State = "expression"
			c.Probes = append(c.Probes, "<=x", "<>", "!=!", ">>>", "<<=", "<", "!")
		}
		if rapid.Bool().Draw(rt, "types") {
			// token types are plain ints chosen by the caller: small ones, library codes, high bits, negatives
			pool := []int{1, 2, 7, 9, 13, 14, 100, 255, 256, 0x0fff, 0x1000, 0x1001, 0x1fff, 0x2000, 0x8000, 0xffff, 0x10000, 1 << 20, 1<<31 - 1, 1 << 32, 1 << 40, 1<<62 + 5, -1, -2, -4096, -1 << 31}
			for range syms {
				c.Types = append(c.Types, rapid.SampledFrom(pool).Draw(rt, "type"))
			}
		}
		rec.Case(jsonStr(c), c16NonTrivial(syms), func() interface{} { return c }, "state:"+c.State)
		if f := checkC16(c); f != nil {
			if rec.Fail(f, c) {
				rt.Fatalf("%v", f)
			}
		}
	})
}
