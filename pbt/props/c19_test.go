package props

import (
	"encoding/json"
	"fmt"
	"os"
	"path/filepath"
	"runtime"
	"sort"
	"strings"
	"sync"
	"testing"

	"github.com/pip-services3-gox/pip-services3-expressions-gox/calculator"
	"github.com/pip-services3-gox/pip-services3-expressions-gox/calculator/functions"
	"github.com/pip-services3-gox/pip-services3-expressions-gox/calculator/variables"
	"github.com/pip-services3-gox/pip-services3-expressions-gox/mustache"
	"github.com/pip-services3-gox/pip-services3-expressions-gox/tokenizers"
	"github.com/pip-services3-gox/pip-services3-expressions-gox/variants"
	"pgregory.net/rapid"
	"verif/pbt/evid"
)

// C19 — evaluation is pure and repeatable, also under concurrent use.

type c19Case struct {
	Kind     string              `json:"kind"` // expression | template
	Text     string              `json:"text"`
	Safe     bool                `json:"safe"`
	Vars     [][]binding         `json:"vars,omitempty"` // expression: K variable collections
	Maps     []map[string]string `json:"maps,omitempty"` // template: K variable maps
	Order    []int               `json:"order"`          // sequential phase: which collection each evaluation uses
	Routines int                 `json:"routines"`       // concurrent phase: number of goroutines (0 = none)
	Iters    int                 `json:"iters"`
	Yield    []bool              `json:"yield,omitempty"` // per goroutine: call runtime.Gosched between iterations
	Procs    int                 `json:"procs,omitempty"`
	// Nondet: the expression calls Rnd / Random / Now / Ticks: values are not compared, the evaluations only have to
	// return normally and race-free
	Nondet bool `json:"nondet,omitempty"`
	// FuncLists > 0: evaluations cycle through that many user function lists (Fx, Gx defined differently in
	// each); a "collection" is then the pair (variable collection, function list)
	FuncLists int `json:"funcLists,omitempty"`
}

type c19Subject struct {
	calc *calculator.ExpressionCalculator
	tmpl *mustache.MustacheTemplate
	c    c19Case
}

func newC19Subject(c c19Case) (*c19Subject, error) {
	s := &c19Subject{c: c}
	if c.Kind == "expression" {
		s.calc = calculator.NewExpressionCalculator()
		s.calc.SetVariantOperations(opsManager(c.Safe))
		return s, s.calc.SetExpression(c.Text)
	}
	s.tmpl = mustache.NewMustacheTemplate()
	return s, s.tmpl.SetTemplate(c.Text)
}

func (s *c19Subject) k() int {
	if s.c.Kind == "expression" {
		if s.c.FuncLists > 0 {
			return len(s.c.Vars) * s.c.FuncLists
		}
		return len(s.c.Vars)
	}
	return len(s.c.Maps)
}

// eval evaluates with a *fresh copy* of collection k (each caller owns its collection).
func (s *c19Subject) eval(k int) string {
	if s.calc != nil {
		vc := makeVars(s.c.Vars[k%len(s.c.Vars)])
		var fl functions.IFunctionCollection
		if s.c.FuncLists > 0 {
			fl = userFunctions(k / len(s.c.Vars) % s.c.FuncLists)
		}
		k = k % len(s.c.Vars)
		v, err := s.calc.EvaluateUsingVariablesAndFunctions(vc, fl)
		out := resultRepr(v, err)
		if v != nil && err == nil {
			// the caller files the result as the value of a variable in a collection of its own and later clears that
			// collection's values (a pipeline stage handing its result on): the parsed instance and the variables it was
			// evaluated with stay what they were
			keep := variables.NewVariableCollection()
			keep.Add(variables.NewVariable("stage", variants.EmptyVariant()))
			keep.FindByName("stage").SetValue(v)
			keep.ClearValues()
		}
		// evaluation must not modify the variable values either
		for i, b := range s.c.Vars[k] {
			if got := fromVariant(vc.Get(i).Value()); !equalVal(got, b.V) {
				return "modified: " + out + fmt.Sprintf(" ; variable %s changed from %s to %s", b.Name, b.V, got)
			}
		}
		return "ok: " + out
	}
	m := map[string]string{}
	for key, v := range s.c.Maps[k] {
		m[key] = v
	}
	out, err := s.tmpl.EvaluateWithVariables(m)
	if len(m) != len(s.c.Maps[k]) {
		return fmt.Sprintf("modified: %q ; variable map changed size", out)
	}
	for key, v := range s.c.Maps[k] {
		if m[key] != v {
			return fmt.Sprintf("modified: %q ; variable map changed", out)
		}
	}
	return fmt.Sprintf("ok: %q %s", out, errRepr(err))
}

// reusedCollection: the caller keeps one collection object, evaluates, restructures it (emptied and refilled in the
// opposite order; an entry removed and added again) and evaluates again - same bindings, same result. For
// templates: the caller's map installed as default variables stays exactly as it was through Evaluate().
func (s *c19Subject) reusedCollection(k int, want string) *evid.Fail {
	var res *evid.Fail
	if g := guard(func() {
		if s.calc != nil {
			bs := s.c.Vars[k%len(s.c.Vars)]
			var fl functions.IFunctionCollection
			if s.c.FuncLists > 0 {
				fl = userFunctions(k / len(s.c.Vars) % s.c.FuncLists)
			}
			pc := makeVars(bs)
			run := func(stage string) bool {
				v, err := s.calc.EvaluateUsingVariablesAndFunctions(pc, fl)
				if got := "ok: " + resultRepr(v, err); got != want {
					res = evid.F("differs-on-reused-collection", "expression %q: with one collection object %s the result is %s, with a fresh collection of the same bindings %s", s.c.Text, stage, got, want)
					return false
				}
				return true
			}
			if !run("used for the first time") {
				return
			}
			pc.Clear()
			for i := len(bs) - 1; i >= 0; i-- {
				pc.Add(variables.NewVariable(bs[i].Name, bs[i].V.toVariant()))
			}
			if !run("emptied and refilled in the opposite order") {
				return
			}
			if len(bs) > 1 {
				pc.Remove(0)
				pc.Add(variables.NewVariable(bs[len(bs)-1].Name, bs[len(bs)-1].V.toVariant()))
				if !run("after its first entry was removed and added again at the end") {
					return
				}
			}
			// later entries under the same names in another letter case (other values): the first one added wins, every time
			pc.Clear()
			for _, b := range bs {
				pc.Add(variables.NewVariable(b.Name, b.V.toVariant()))
			}
			for i, b := range bs {
				pc.Add(variables.NewVariable(strings.ToUpper(b.Name), bs[(i+1)%len(bs)].V.toVariant()))
			}
			if run("holding later entries of the same names in upper case") {
				run("holding later entries of the same names in upper case, evaluated again")
			}
			// a function collection of the caller's that lacks what the expression calls: evaluation reports that (or
			// whatever fails first) and leaves the caller's collection as it was
			ownFuncs := functions.NewFunctionCollection()
			ownFuncs.Add(tupFunction("OnlyThisOne"))
			s.calc.EvaluateUsingVariablesAndFunctions(makeVars(bs), ownFuncs)
			if ownFuncs.Length() != 1 || ownFuncs.Get(0).Name() != "OnlyThisOne" {
				var names []string
				for _, f := range ownFuncs.GetAll() {
					names = append(names, f.Name())
				}
				res = evid.F("impure:callers-function-collection-modified", "expression %q: after an evaluation the caller's function collection, which held one function, holds %v", s.c.Text, names)
				return
			}
			// separate instances built from one token list of the caller's (the list this instance reports, blanks and
			// comments included), one after the other: each evaluates like the instance the list came from
			list := s.calc.OriginalTokens()
			for round := 1; round <= 2 && len(list) > 0; round++ {
				other := calculator.ExpressionCalculatorFromTokens(list)
				other.SetVariantOperations(s.calc.VariantOperations())
				v, err := other.EvaluateUsingVariablesAndFunctions(makeVars(bs), fl)
				if got := "ok: " + resultRepr(v, err); got != want && !(strings.HasPrefix(got, "ok: error") && strings.HasPrefix(want, "ok: error")) {
					res = evid.F("instances-from-one-token-list-differ", "expression %q: instance #%d built from the token list the parsed instance reports evaluates to %s, the parsed instance to %s", s.c.Text, round, got, want)
					return
				}
			}
			// collections the calculator fills for the caller (CreateVariables) are the caller's: values set in one of
			// them show neither in the calculator's own default variables nor in another collection it filled
			own1, own2 := variables.NewVariableCollection(), variables.NewVariableCollection()
			s.calc.CreateVariables(own1)
			s.calc.CreateVariables(own2)
			snap := func() string {
				var sb strings.Builder
				for _, vc := range []variables.IVariableCollection{s.calc.DefaultVariables(), own2} {
					for _, v := range vc.GetAll() {
						sb.WriteString(v.Name() + "=" + fromVariant(v.Value()).String() + " ")
					}
					sb.WriteString("| ")
				}
				return sb.String()
			}
			before := snap()
			for i, v := range own1.GetAll() {
				v.SetValue(variants.VariantFromInteger(100 + i))
			}
			if after := snap(); after != before {
				res = evid.F("created-collections-share-variables", "expression %q: after values were set in one collection filled by CreateVariables, the default variables and another such collection read %s, before %s", s.c.Text, after, before)
			}
			return
		}
		// one map object of the caller's on the shared parsed instance: used, its values rotated among the same keys in
		// place, used again, restored, used again - each time the result is the one a new map object with the same
		// content gives (equal inputs, equal result; the object's history does not matter)
		{
			live := map[string]string{}
			var keys []string
			for key, v := range s.c.Maps[k] {
				live[key] = v
				keys = append(keys, key)
			}
			sort.Strings(keys)
			other := mustache.NewMustacheTemplate()
			if other.SetTemplate(s.c.Text) != nil {
				return
			}
			renderBoth := func(stage string) bool {
				cp := map[string]string{}
				for key, v := range live {
					cp[key] = v
				}
				o1, e1 := s.tmpl.EvaluateWithVariables(live)
				o2, e2 := other.EvaluateWithVariables(cp) // on another instance: nothing else passes through the shared one in between
				if o1 != o2 || (e1 == nil) != (e2 == nil) {
					res = evid.F("differs-on-reused-map", "template %q: with the caller's one map object %s (%s) the rendering is %q (%v), with a new map of the same content on a new instance %q (%v)", s.c.Text, stage, sortedMap(live), o1, e1, o2, e2)
					return false
				}
				return true
			}
			if !renderBoth("used for the first time") {
				return
			}
			if len(keys) > 0 {
				first := live[keys[0]]
				for i := 0; i+1 < len(keys); i++ {
					live[keys[i]] = live[keys[i+1]]
				}
				live[keys[len(keys)-1]] = first + "*"
				if !renderBoth("after its values were rotated among the keys in place") {
					return
				}
				for key, v := range s.c.Maps[k] {
					live[key] = v
				}
				if !renderBoth("after its first values were written back") {
					return
				}
			}
		}
		t2 := mustache.NewMustacheTemplate()
		if t2.SetTemplate(s.c.Text) != nil {
			return
		}
		m := map[string]string{}
		for key, v := range s.c.Maps[k] {
			m[key] = v
		}
		t2.SetDefaultVariables(m)
		for round := 1; round <= 2; round++ {
			out, err := t2.Evaluate()
			if got := fmt.Sprintf("ok: %q %s", out, errRepr(err)); got != want {
				res = evid.F("differs-with-default-map", "template %q: Evaluate() #%d with the caller's map as default variables gives %s, EvaluateWithVariables with the same map %s", s.c.Text, round, got, want)
				return
			}
			if sortedMap(m) != sortedMap(s.c.Maps[k]) {
				res = evid.F("impure:variables-modified:default-map", "template %q: Evaluate() changed the caller's default map from %s to %s", s.c.Text, sortedMap(s.c.Maps[k]), sortedMap(m))
				return
			}
		}
	}); g != nil {
		return g
	}
	return res
}

func (s *c19Subject) snapshot() string {
	if s.calc != nil {
		var names []string
		for _, f := range s.calc.DefaultFunctions().GetAll() {
			names = append(names, f.Name())
		}
		var dv []string
		for _, v := range s.calc.DefaultVariables().GetAll() {
			dv = append(dv, v.Name()+"="+fromVariant(v.Value()).String())
		}
		return exprTokensRepr(s.calc.ResultTokens()) + " | initial " + exprTokensRepr(s.calc.InitialTokens()) + " | functions " + strings.Join(names, ",") + " | defaults " + strings.Join(dv, ",") + " | empty " + fromVariant(variants.Empty).String() + " | sentinel " + sentinelError.Message
	}
	return mustacheTokensRepr(s.tmpl.ResultTokens()) + " | defaults " + sortedMap(s.tmpl.DefaultVariables()) + " | sentinel " + sentinelError.Message
}

// checkC19 runs the sequential phase (and the concurrent phase when Routines > 0). In a -race build a data
// race terminates the process (GORACE=halt_on_error=1); the driver then reports the case logged last.
func checkC19(c c19Case) *evid.Fail {
	var res *evid.Fail
	if g := guard(func() {
		s, err := newC19Subject(c)
		if err != nil {
			res = evid.F("well-formed-rejected", "%s %q rejected: %v", c.Kind, c.Text, err)
			return
		}
		before := s.snapshot()
		first := make([]string, s.k())
		if c.Nondet {
			var wg sync.WaitGroup
			var mu sync.Mutex
			var bad string
			for g := 0; g < c.Routines; g++ {
				wg.Add(1)
				go func(g int) {
					defer wg.Done()
					for it := 0; it < c.Iters; it++ {
						vc := makeVars(c.Vars[g%len(c.Vars)])
						v, err := s.calc.EvaluateUsingVariables(vc)
						if (v == nil) == (err == nil) {
							mu.Lock()
							bad = fmt.Sprintf("goroutine %d: result %v, error %v", g, v, err)
							mu.Unlock()
						}
					}
				}(g)
			}
			wg.Wait()
			if bad != "" {
				res = evid.F("concurrent:neither-or-both", "%q: %s", c.Text, bad)
			} else if after := s.snapshot(); after != before {
				res = evid.F("impure:program-modified-concurrently:expression", "%q: program changed", c.Text)
			}
			return
		}
		for i, k := range c.Order {
			k = k % s.k()
			got := s.eval(k)
			if strings.HasPrefix(got, "modified: ") { // the prefix is the harness's own; generated text only follows it
				res = evid.F("impure:variables-modified", "%s %q, evaluation %d with collection %d: %s", c.Kind, c.Text, i, k, got)
				return
			}
			if first[k] == "" {
				first[k] = got
				if fresh, err := newC19Subject(c); err == nil {
					if want := fresh.eval(k); want != got {
						res = evid.F("differs-from-fresh-instance:"+c.Kind, "%s %q, evaluation %d with collection %d gives %s, a fresh instance gives %s (order %v)", c.Kind, c.Text, i, k, got, want, c.Order)
						return
					}
				}
				if f := s.reusedCollection(k, got); f != nil {
					res = f
					return
				}
			} else if got != first[k] {
				res = evid.F("not-repeatable:"+c.Kind, "%s %q, evaluation %d with collection %d gives %s, the first evaluation with that collection gave %s (order %v)", c.Kind, c.Text, i, k, got, first[k], c.Order)
				return
			}
			if after := s.snapshot(); after != before {
				res = evid.F("impure:program-modified:"+c.Kind, "%s %q: after evaluation %d the compiled program / function table / defaults read\n%s\nbefore:\n%s", c.Kind, c.Text, i, after, before)
				return
			}
		}
		if c.Routines <= 0 {
			return
		}
		for k := range first {
			if first[k] == "" {
				first[k] = s.eval(k)
			}
		}
		if c.Procs > 0 {
			defer runtime.GOMAXPROCS(runtime.GOMAXPROCS(c.Procs))
		}
		// phase 1: one parsed instance, goroutines with their own collections
		var wg sync.WaitGroup
		var mu sync.Mutex
		var bad string
		for g := 0; g < c.Routines; g++ {
			wg.Add(1)
			go func(g int) {
				defer wg.Done()
				k := g % s.k()
				for it := 0; it < c.Iters; it++ {
					got := s.eval(k)
					if got != first[k] {
						mu.Lock()
						bad = fmt.Sprintf("goroutine %d iteration %d with collection %d gives %s, sequentially %s", g, it, k, got, first[k])
						mu.Unlock()
						return
					}
					if g < len(c.Yield) && c.Yield[g] {
						runtime.Gosched()
					}
				}
			}(g)
		}
		wg.Wait()
		if bad != "" {
			res = evid.F("concurrent-differs-from-sequential:"+c.Kind, "%s %q: %s", c.Kind, c.Text, bad)
			return
		}
		if after := s.snapshot(); after != before {
			res = evid.F("impure:program-modified-concurrently:"+c.Kind, "%s %q: after the concurrent phase the compiled program reads\n%s\nbefore:\n%s", c.Kind, c.Text, after, before)
			return
		}
		// phase 2: every goroutine owns its own instance (parser, tokenizer, calculator / template)
		for g := 0; g < c.Routines; g++ {
			wg.Add(1)
			go func(g int) {
				defer wg.Done()
				k := g % s.k()
				for it := 0; it < 1+c.Iters/4; it++ {
					own, err := newC19Subject(c)
					got := "rejected"
					if err == nil {
						got = own.eval(k)
					}
					tokenizeFresh(tokKinds[g%len(tokKinds)], g%(optAll+1), c.Text) // own tokenizer: exercised for the race detector
					if got != first[k] {
						mu.Lock()
						bad = fmt.Sprintf("goroutine %d with its own instance gives %s, sequentially %s", g, got, first[k])
						mu.Unlock()
						return
					}
				}
			}(g)
		}
		wg.Wait()
		if bad != "" {
			res = evid.F("separate-instances-interfere:"+c.Kind, "%s %q: %s", c.Kind, c.Text, bad)
		}
	}); g != nil {
		g.Msg = fmt.Sprintf("%s %q: %s", c.Kind, c.Text, g.Msg)
		return g
	}
	return res
}

func init() { regReplay("C19", checkC19) }

const c19Rule = "a parsed expression (deterministic functions only) or template x K = 2..4 variable collections x an interleaving of 6..20 evaluations, then G goroutines x iterations on the same parsed instance with their own collections, then G goroutines each owning its own instance; oracle: every evaluation equals the first one with the same collection, snapshots of the compiled program, constants, function table, defaults and variable values are unchanged, concurrent results equal the sequential ones, the race detector stays silent; non-trivial = >= 3 operators evaluated >= 2 times per collection (sequential) or >= 4 goroutines (concurrent); distinct by case"

func genC19(rt *rapid.T, concurrent bool) c19Case {
	c := c19Case{Safe: rapid.IntRange(0, 4).Draw(rt, "safe") == 0}
	k := rapid.IntRange(2, 4).Draw(rt, "k")
	if rapid.IntRange(0, 2).Draw(rt, "kind") != 0 {
		c.Kind = "expression"
		cfg := &genCfg{vars: c01VarNames, funcs: []string{"Max", "Min", "Sum", "If", "Abs", "Array", "Contains", "Choose", "Array"}, consts: defaultConst, maxArgs: 4, noLike: true}
		tree := genSized(rt, cfg, rapid.SampledFrom([]int{2, 3, 4, 6, 8, 12, 20}).Draw(rt, "size"))
		if rapid.IntRange(0, 3).Draw(rt, "direct") == 0 {
			// a function applied directly to variables (arguments by reference), combined with a re-read of the variable
			fn := rapid.SampledFrom([]string{"Abs", "Max", "Min", "Sum", "If", "Choose", "Array", "Contains", "Round", "Trunc", "Sqrt", "Ceil"}).Draw(rt, "dfn")
			call := &node{Op: "call", Tok: fn}
			for i := rapid.IntRange(1, 3).Draw(rt, "dargc"); i > 0; i-- {
				call.Kids = append(call.Kids, &node{Op: "var", Tok: rapid.SampledFrom(c01VarNames).Draw(rt, "dvar")})
			}
			tree = &node{Op: rapid.SampledFrom([]string{"+", "=", "<", "AND"}).Draw(rt, "dop"), Kids: []*node{call, tree}}
		}
		if rapid.IntRange(0, 3).Draw(rt, "userfuncs") == 0 {
			c.FuncLists = rapid.IntRange(2, 3).Draw(rt, "nlists")
			tree = &node{Op: "call", Tok: "Array", Kids: []*node{{Op: "call", Tok: "Fx"}, {Op: "call", Tok: "Gx", Kids: []*node{{Op: "var", Tok: "a"}}}, tree}}
			if rapid.IntRange(0, 2).Draw(rt, "failing") == 0 {
				// a user function that fails with a shared error object, somewhere behind other work
				tree = &node{Op: "+", Kids: []*node{tree, {Op: "call", Tok: "Ex"}}}
			}
		}
		c.Text = spellRandom(rt, printTokens(tree, rapid.IntRange(0, 2).Draw(rt, "style"), func() bool { return rapid.IntRange(0, 5).Draw(rt, "xp") == 0 }))
		for i := 0; i < k; i++ {
			var bs []binding
			for _, n := range c01VarNames {
				v := genC01Value(rt)
				if rapid.IntRange(0, 3).Draw(rt, "neg") == 0 {
					v = rapid.SampledFrom([]val{vDouble(-2.5), vDouble(-0.5), vFloat(-1.5), vInt(-3), vLong(-4), vDouble(1e300), vString("-2.5")}).Draw(rt, "negval")
				}
				bs = append(bs, binding{n, v})
			}
			c.Vars = append(c.Vars, bs)
		}
	} else {
		c.Kind = "template"
		budget := rapid.SampledFrom([]int{3, 5, 8, 14}).Draw(rt, "budget")
		tree := fixEdges(genNodes(rt, rapid.IntRange(0, 4).Draw(rt, "depth"), &budget))
		var sb strings.Builder
		mPrint(tree, &sb)
		c.Text = sb.String()
		for i := 0; i < k; i++ {
			c.Maps = append(c.Maps, genMap(rt))
		}
	}
	n := rapid.IntRange(6, 20).Draw(rt, "evals")
	kk := k
	if c.FuncLists > 0 {
		kk = k * c.FuncLists
	}
	for i := 0; i < n; i++ {
		c.Order = append(c.Order, rapid.IntRange(0, kk-1).Draw(rt, "which"))
	}
	if concurrent && c.Kind == "expression" && c.FuncLists == 0 && rapid.IntRange(0, 3).Draw(rt, "nondet") == 0 {
		c.Nondet = true
		c.Text = rapid.SampledFrom([]string{"Rnd() + ", "If(Random() < 0.5, 1, 2) + ", "Ticks() * 0 + ", "If(Now() = Now(), 1, 2) + ", "Array(Rnd(), Random(), Ticks())[0] + "}).Draw(rt, "nd") + "Array(" + c.Text + ")[0]"
	}
	if concurrent {
		c.Routines = rapid.SampledFrom([]int{2, 3, 4, 8, 16}).Draw(rt, "routines")
		c.Iters = rapid.SampledFrom([]int{5, 20, 50}).Draw(rt, "iters")
		for i := 0; i < c.Routines; i++ {
			c.Yield = append(c.Yield, rapid.Bool().Draw(rt, "yield"))
		}
		if thorough() {
			c.Procs = rapid.SampledFrom([]int{2, 4, 16}).Draw(rt, "procs")
		}
	}
	return c
}

func c19NonTrivial(c c19Case) bool {
	if c.Routines >= 4 {
		return true
	}
	ops := strings.Count(c.Text, "{{") + len(strings.FieldsFunc(c.Text, func(r rune) bool { return !strings.ContainsRune("+-*/%^<>=", r) }))
	count := map[int]int{}
	twice := false
	for _, k := range c.Order {
		count[k]++
		if count[k] >= 2 {
			twice = true
		}
	}
	return ops >= 3 && twice
}

func TestC19_RapidSequential(t *testing.T) {
	rec := evid.New("C19", "TestC19_RapidSequential", "C19", c19Rule)
	defer finish(t, rec)
	runRapid(t, pick(8000, 60000), 19, func(rt *rapid.T) {
		c := genC19(rt, false)
		rec.Case(jsonStr(c), c19NonTrivial(c), func() interface{} { return map[string]interface{}{"kind": c.Kind, "text": c.Text, "order": c.Order} }, "kind:"+c.Kind)
		if f := checkC19(c); f != nil {
			if rec.Fail(f, c) {
				rt.Fatalf("%v", f)
			}
		}
	})
}

// TestC19_RaceConcurrent runs the concurrent phase; it is meant for the -race build. The generated program is
// written to $VERIF_OUT before the goroutines start, because a race report cannot be shrunk or replayed by
// rapid: the logged program is the replay file.
func TestC19_RaceConcurrent(t *testing.T) {
	rec := evid.New("C19", "TestC19_RaceConcurrent", "C19", c19Rule)
	defer finish(t, rec)
	si, sn := evid.Shard()
	logPath := ""
	if d := evid.OutDir(); d != "" {
		logPath = filepath.Join(d, fmt.Sprintf("c19_current.%d-%d.json", si, sn))
	}
	runRapid(t, pick(300, 2000), 1919, func(rt *rapid.T) {
		c := genC19(rt, true)
		if logPath != "" {
			data, _ := json.Marshal(replayFile{Property: "C19", Test: "TestC19_RaceConcurrent", Kind: "C19", Sig: "data-race", Msg: "the race detector reported a data race while this program ran", Case: json.RawMessage(jsonStr(c))})
			os.WriteFile(logPath, data, 0o644)
		}
		rec.Case(jsonStr(c), c19NonTrivial(c), func() interface{} {
			return map[string]interface{}{"kind": c.Kind, "text": c.Text, "routines": c.Routines, "iters": c.Iters}
		}, "kind:"+c.Kind, fmt.Sprintf("routines:%d", c.Routines))
		if f := checkC19(c); f != nil {
			if rec.Fail(f, c) {
				rt.Fatalf("%v", f)
			}
		}
	})
	if logPath != "" {
		os.Remove(logPath)
	}
}

// TestC19_EnumFunctionPurity: every deterministic built-in function applied directly to variables (arguments
// passed by reference) must leave the variables, the program and its own result repeatable.
func TestC19_EnumFunctionPurity(t *testing.T) {
	rec := evid.New("C19", "TestC19_EnumFunctionPurity", "C19", c19Rule+"; function purity: every deterministic built-in applied directly to variables holding boundary values (negative / fractional / huge numbers, strings, arrays, null), evaluated alternately under two collections")
	rec.Exhaustive = true
	rec.DupFree = true
	defer finish(t, rec)
	pool := append([]val{vDouble(-2.5), vFloat(-1.5), vInt(-7), vLong(-5), vDouble(0.49999999999999994)}, c08SubPool...)
	var names []string
	for _, n := range c08Names {
		switch n {
		case "Ticks", "Now", "Rnd", "Random", "Null", "E", "Pi":
		default:
			names = append(names, n)
		}
	}
	rec.Bounds = fmt.Sprintf("%d deterministic functions x all argument lists of length 1..2 over a %d-value pool (length 3 at rotating offsets, lengths 4..8 over ten numbers at rotating offsets), variables a..h, two collections, order [0 1 0 1 1 0]", len(names), len(pool))
	parallelFor(len(names), func(i int) {
		name := names[i]
		run := func(args []val) {
			vn := []string{"a", "b", "c", "d", "e", "f", "g", "h"}[:len(args)]
			c := c19Case{Kind: "expression", Text: name + "(" + strings.Join(vn, ", ") + ")", Order: []int{0, 1, 0, 1, 1, 0}}
			var b0, b1 []binding
			for k, a := range args {
				b0 = append(b0, binding{vn[k], a})
				b1 = append(b1, binding{vn[k], args[(k+1)%len(args)]})
			}
			c.Vars = [][]binding{b0, b1}
			rec.Case(jsonStr(c), true, func() interface{} { return fmt.Sprintf("%s with %v", c.Text, b0) }, "fn:"+name)
			if f := checkC19(c); f != nil {
				rec.Fail(f, c)
			}
		}
		for _, a := range pool {
			run([]val{a})
			for _, b := range pool {
				run([]val{a, b})
			}
		}
		for off := range pool {
			run([]val{pool[off], pool[(off+3)%len(pool)], pool[(off+7)%len(pool)]})
		}
		// longer argument lists (the date and time-span constructors take up to seven, the folds any number): integers
		// that make a valid call, at rotating positions
		parts := []val{vInt(2021), vInt(3), vInt(14), vInt(15), vInt(9), vInt(26), vInt(535), vLong(7), vDouble(1.5), vInt(1)}
		for n := 4; n <= 8; n++ {
			for off := range parts {
				args := make([]val, n)
				for k := range args {
					args[k] = parts[(off+k)%len(parts)]
				}
				run(args)
			}
		}
	})
}

// TestC19Cold_RaceFirstUse must run in a process of its own (the driver does that): goroutines that each own
// their calculator / tokenizers / template touch every symbol, keyword, function and tokenizer for the first
// time in the process *concurrently*, without any sequential warm-up, so that lazily initialised shared state
// (caches filled on first use) is raced while it is still cold. Results are compared among the goroutines and
// with a sequential evaluation afterwards.
func TestC19Cold_RaceFirstUse(t *testing.T) {
	rec := evid.New("C19", "TestC19Cold_RaceFirstUse", "C19", c19Rule+"; cold start: first use of every symbol / keyword / function / tokenizer in the process happens concurrently in goroutines that own separate instances")
	defer finish(t, rec)
	exprs := []string{"a <= b", "a >= b", "a <> b", "a != b", "a << 2", "a >> 1", "a < b AND NOT (a > b) OR a = b XOR a IS NULL", "Max(a, b) + Min(a, b) + Sum(a, b, 1)",
		"If(a < b, 'x', 'y') + 'z'", "c IN Array(a, b, 3)", "a NOT IN Array(1, 2)", "Abs(-a) * 2.5 / 2 % 3 ^ 2", "\"a\" + 1 /* c */", "Contains('abc', 'b')", "Array(1, 2, 3)[1]"}
	templates := []string{"Hello, {{{NAME}}}{{ #if E }}!{{/if}}{{{^E}}}.{{{/E}}}", "{{#a}}x{{/a}}{{^b}}y{{/b}}{{! c }}", "{{a}}<=<>{{b}}"}
	inputs := []string{"a <= b <> c << d >= e >> f != g", "'x' \"y\" 1.5e3 -2 # c\n/* d */ // e", "\"a\",\"b\"\r\n1,2\n\r", "{{#if a}}{{{b}}}{{/if}} <= <>"}
	const G = 16
	results := make([]string, G)
	var wg sync.WaitGroup
	for g := 0; g < G; g++ {
		wg.Add(1)
		go func(g int) {
			defer wg.Done()
			var sb strings.Builder
			if f := guard(func() {
				for i := range exprs {
					e := exprs[(i+g)%len(exprs)]
					calc := calculator.NewExpressionCalculator()
					err := calc.SetExpression(e)
					v, eerr := calc.EvaluateUsingVariables(makeVars([]binding{{"a", vInt(3)}, {"b", vInt(4)}, {"c", vInt(3)}}))
					fmt.Fprintf(&sb, "%s => %v %s\n", e, err, resultRepr(v, eerr))
				}
				for i := range templates {
					tp := templates[(i+g)%len(templates)]
					mt := mustache.NewMustacheTemplate()
					err := mt.SetTemplate(tp)
					out, rerr := mt.EvaluateWithVariables(map[string]string{"name": "N", "e": "1", "a": "A"})
					fmt.Fprintf(&sb, "%s => %v %q %v\n", tp, err, out, rerr)
				}
				for i := range inputs {
					in := inputs[(i+g)%len(inputs)]
					for _, k := range tokKinds {
						toks, _ := tokenizeFresh(k, 0, in)
						fmt.Fprintf(&sb, "%s %q => %s\n", k, in, tksString(toks))
					}
				}
			}); f != nil {
				fmt.Fprintf(&sb, "PANIC %s %s", f.Sig, f.Msg)
			}
			lines := strings.Split(sb.String(), "\n")
			sortStrings(lines)
			results[g] = strings.Join(lines, "\n")
		}(g)
	}
	wg.Wait()
	for g := 0; g < G; g++ {
		rec.Case(fmt.Sprintf("goroutine %d", g), true, func() interface{} {
			return fmt.Sprintf("goroutine %d: %d expressions, %d templates, %d inputs x 4 tokenizers, first use", g, len(exprs), len(templates), len(inputs))
		})
		if results[g] != results[0] || strings.Contains(results[g], "PANIC") {
			c := c19Case{Kind: "cold-start", Text: "goroutine " + fmt.Sprint(g)}
			rec.Fail(evid.F("cold-start:goroutines-disagree", "goroutine %d observed\n%s\n\ngoroutine 0 observed\n%s", g, results[g], results[0]), c)
			return
		}
	}
}

func sortStrings(s []string) {
	for i := 1; i < len(s); i++ {
		for j := i; j > 0 && s[j] < s[j-1]; j-- {
			s[j], s[j-1] = s[j-1], s[j]
		}
	}
}

// TestC19_EnumInstanceIsolation: configuring or using one instance never shows in another instance
// (separate instances share nothing).
func TestC19_EnumInstanceIsolation(t *testing.T) {
	rec := evid.New("C19", "TestC19_EnumInstanceIsolation", "C19", c19Rule+"; instance isolation: registering symbols, character states, word / blank characters, variables or functions on one instance must not change what another instance of the same kind produces")
	rec.Exhaustive = true
	defer finish(t, rec)
	probe := "a <=> b =>> c ~~ d\t1.5 'q' {{x}} ≠"
	for _, kind := range tokKinds {
		want, _ := tokenizeFresh(kind, 0, probe)
		if f := guard(func() {
			a := newTokenizer(kind)
			a.SymbolState().Add("<=>", 77)
			a.SymbolState().Add("=>>", 78)
			a.SymbolState().Add("~~", 79)
			a.SymbolState().Add("≠", 80)
			if ws, ok := a.WordState().(interface{ SetWordChars(rune, rune, bool) }); ok && a.WordState() != nil {
				ws.SetWordChars('a', 'b', false)
			}
			if at, ok := a.(interface {
				SetCharacterState(rune, rune, tokenizers.ITokenizerState)
			}); ok {
				at.SetCharacterState('c', 'd', a.SymbolState())
			}
			tokenizeCapped(a, probe, 1)
		}); f != nil {
			rec.Fail(f, c19Case{Kind: "isolation", Text: kind})
			continue
		}
		got, _ := tokenizeFresh(kind, 0, probe)
		rec.Case("isolation:"+kind, true, func() interface{} {
			return "reconfigure one " + kind + " tokenizer, then tokenize " + probe + " with another"
		})
		if tksString(got) != tksString(want) {
			rec.Fail(evid.F("instances-share-configuration:"+kind, "after another %s tokenizer was reconfigured, a fresh one tokenizes %q as %s instead of %s", kind, probe, tksString(got), tksString(want)), c19Case{Kind: "isolation", Text: kind})
		}
	}
	// calculators: variables, functions and removed functions of one calculator are invisible to another
	a := calculator.NewExpressionCalculator()
	a.DefaultVariables().Add(variables.NewVariable("zz", variants.VariantFromInteger(5)))
	a.DefaultFunctions().Add(tupFunction("Zf"))
	a.DefaultFunctions().RemoveByName("Max")
	a.SetExpression("zz + 1")
	b := calculator.NewExpressionCalculator()
	rec.Case("isolation:calculator", true, func() interface{} { return "variables / functions added to or removed from one calculator" })
	if b.DefaultVariables().FindByName("zz") != nil || b.DefaultFunctions().FindByName("Zf") != nil || b.DefaultFunctions().FindByName("Max") == nil {
		rec.Fail(evid.F("instances-share-configuration:calculator", "variables or functions of one calculator are visible in another"), c19Case{Kind: "isolation", Text: "calculator"})
	}
	if variants.Empty.Type() != variants.Null {
		rec.Fail(evid.F("shared-empty-variant-modified", "variants.Empty is %s", fromVariant(variants.Empty)), c19Case{Kind: "isolation", Text: "variants.Empty"})
	}
	// one calculator takes a single entry out of its own function table (each standard function in turn, the first,
	// the last, all of them) as the first thing it does; a calculator created before and one created after evaluate
	// the same expression before and after that and get what they got
	probeExpr := "Max(1, 7, 3) + Min(4, 2) + Sum(1, 2, 3) + If(2 > 1, 10, 20) + Choose(2, 100, 200, 300) + Abs(0 - 5) + Array(1, 2)[1] + Trunc(Sqrt(16)) + Floor(2.5)"
	var names []string
	for _, f := range functions.NewDefaultFunctionCollection().GetAll() {
		names = append(names, f.Name())
	}
	edits := append([]string{"#first", "#last", "#clear"}, names...)
	for _, edit := range edits {
		before := calculator.NewExpressionCalculator()
		var w1, w2, w3 string
		if g := guard(func() {
			before.SetExpression(probeExpr)
			v, e := before.Evaluate()
			w1 = resultRepr(v, e)
			a := calculator.NewExpressionCalculator()
			fc := a.DefaultFunctions()
			switch edit {
			case "#first":
				fc.Remove(0)
			case "#last":
				fc.Remove(fc.Length() - 1)
			case "#clear":
				fc.Clear()
			default:
				fc.RemoveByName(strings.ToLower(edit))
			}
			v, e = before.Evaluate()
			w2 = resultRepr(v, e)
			after := calculator.NewExpressionCalculator()
			after.SetExpression(probeExpr)
			v, e = after.Evaluate()
			w3 = resultRepr(v, e)
		}); g != nil {
			rec.Fail(g, c19Case{Kind: "isolation", Text: "calculator functions " + edit})
			continue
		}
		rec.Case("isolation:functions:"+edit, true, func() interface{} {
			return "another calculator removes " + edit + " from its own function table between two evaluations of " + probeExpr
		})
		if w1 != w2 || w1 != w3 || strings.HasPrefix(w1, "error") {
			rec.Fail(evid.F("instances-share-function-table", "%q evaluates to %s; after ANOTHER calculator removed %s from its own function table the same calculator gives %s and a new calculator %s", probeExpr, w1, edit, w2, w3), c19Case{Kind: "isolation", Text: "calculator functions " + edit})
		}
	}
}
