package props

import (
	"fmt"
	"reflect"
	"strings"
	"testing"

	rio "github.com/pip-services3-gox/pip-services3-expressions-gox/io"
	"github.com/pip-services3-gox/pip-services3-expressions-gox/tokenizers"
	"github.com/pip-services3-gox/pip-services3-expressions-gox/tokenizers/generic"
	"github.com/pip-services3-gox/pip-services3-expressions-gox/tokenizers/utilities"
	"pgregory.net/rapid"
	"verif/pbt/evid"
)

// C17 — character-class maps answer with the latest covering registration.

type c17Op struct {
	Kind  int  `json:"k"` // 0 AddInterval, 1 AddDefaultInterval, 2 Clear
	Start rune `json:"s"`
	End   rune `json:"e"`
	Ref   int  `json:"r"` // 0 none(nil), 1 A, 2 B
}

type c17Case struct {
	Ops    []c17Op `json:"ops"`
	Probes []rune  `json:"probes"`
}

type c17Ref struct{ name string }

var c17A, c17B = &c17Ref{"A"}, &c17Ref{"B"}

// a second object with the content of A: another reference, however equal it looks
var c17A2 = &c17Ref{"A"}

var (
	c17F1 = func(r rune) bool { return true }
	c17F2 = func(r rune) bool { return false }
	c17S1 = []string{"s1"}
	c17M1 = map[string]int{"m1": 1}
)

// references 1, 2: pointers; 3, 4: function values; 5: a slice; 6: a map (types that do not support ==)
func c17RefOf(i int) interface{} {
	switch i {
	case 1:
		return c17A
	case 2:
		return c17B
	case 3:
		return c17F1
	case 4:
		return c17F2
	case 5:
		return c17S1
	case 6:
		return c17M1
	case 7:
		return c17A2
	}
	return nil
}

// c17Same: identity of references, also for the types that == cannot compare.
func c17Same(got, want interface{}) bool {
	if got == nil || want == nil {
		return got == nil && want == nil
	}
	gv, wv := reflect.ValueOf(got), reflect.ValueOf(want)
	if gv.Type() != wv.Type() {
		return false
	}
	switch gv.Kind() {
	case reflect.Func, reflect.Slice, reflect.Map, reflect.Ptr:
		return gv.Pointer() == wv.Pointer()
	}
	return false
}

func c17Name(v interface{}) string {
	if v == nil {
		return "none"
	}
	for i, n := range []string{"", "A", "B", "F1", "F2", "S1", "M1", "A2"} {
		if i > 0 && c17Same(v, c17RefOf(i)) {
			return n
		}
	}
	return fmt.Sprintf("foreign(%T)", v)
}

type c17Reg struct {
	s, e rune
	ref  int
}

// refLookup: the newest registration whose (clamped) range contains ch decides.
func c17Model(ops []c17Op) func(ch rune) int {
	var regs []c17Reg // newest first
	for _, op := range ops {
		switch op.Kind {
		case 0, 1:
			s, e := op.Start, op.End
			if op.Kind == 1 {
				s, e = 0, 0xfffe
			}
			if e >= 0xffff { // documented clamp of the upper bound
				e = 0xfffe
			}
			regs = append([]c17Reg{{s, e, op.Ref}}, regs...)
		case 2:
			regs = nil
		}
	}
	return func(ch rune) int {
		if ch < 0 {
			return 0
		}
		for _, r := range regs {
			if ch >= r.s && ch <= r.e {
				return r.ref
			}
		}
		return 0
	}
}

func (o c17Op) String() string {
	switch o.Kind {
	case 0:
		return fmt.Sprintf("AddInterval(%#x,%#x,%s)", o.Start, o.End, c17Name(c17RefOf(o.Ref)))
	case 1:
		return fmt.Sprintf("AddDefaultInterval(%s)", c17Name(c17RefOf(o.Ref)))
	}
	return "Clear"
}

func checkC17(c c17Case) *evid.Fail {
	var res *evid.Fail
	if g := guard(func() {
		m := utilities.NewCharReferenceMap()
		for i := range c.Ops {
			op := c.Ops[i]
			switch op.Kind {
			case 0:
				m.AddInterval(op.Start, op.End, c17RefOf(op.Ref))
			case 1:
				m.AddDefaultInterval(c17RefOf(op.Ref))
			case 2:
				m.Clear()
			}
			// probe after every step: registrations must not disturb what earlier ones answer elsewhere
			model := c17Model(c.Ops[:i+1])
			// long histories: a rotating sample of the probes per step, all of them every 64 steps and at the end
			stride := 1
			if len(c.Ops) > 40 && (i+1)%64 != 0 && i != len(c.Ops)-1 {
				stride = len(c.Probes)/48 + 1
			}
			for j, ch := range c.Probes {
				if stride > 1 && (j+i)%stride != 0 {
					continue
				}
				got := m.Lookup(ch)
				want := c17RefOf(model(ch))
				if !c17Same(got, want) {
					sig := "lookup-wrong-reference"
					if ch >= 0x100 {
						sig += ":above-U+00FF"
					} else {
						sig += ":below-U+0100"
					}
					if want == nil {
						sig += ":expected-none"
					}
					res = evid.F(sig, "after %v Lookup(%#x) = %s, want %s", c.Ops[:i+1], ch, c17Name(got), c17Name(want))
					return
				}
			}
		}
	}); g != nil {
		return g
	}
	return res
}

func init() { regReplay("C17", checkC17) }

var c17Endpoints = []rune{0, 'a', 0xff, 0x100, 0x101, 0x2000, 0xfffe}

func c17AllOps() []c17Op {
	var ops []c17Op
	for i, s := range c17Endpoints {
		for _, e := range c17Endpoints[i:] {
			for r := 0; r < 3; r++ {
				ops = append(ops, c17Op{0, s, e, r})
			}
		}
	}
	for r := 0; r < 3; r++ {
		ops = append(ops, c17Op{1, 0, 0, r})
	}
	ops = append(ops, c17Op{2, 0, 0, 0})
	return ops
}

func c17AllProbes() []rune {
	seen := map[rune]bool{}
	var out []rune
	add := func(r rune) {
		if !seen[r] {
			seen[r] = true
			out = append(out, r)
		}
	}
	for _, e := range c17Endpoints {
		add(e - 1)
		add(e)
		add(e + 1)
	}
	add(0xffff)
	add(0x10000)
	add(-1)
	return out
}

func c17NonTrivial(ops []c17Op) bool {
	// >= 2 overlapping registrations, a nil registration over an earlier one, or a range spanning 0xFF/0x100
	type iv struct{ s, e rune }
	var live []iv
	for _, op := range ops {
		switch op.Kind {
		case 2:
			live = nil
		default:
			s, e := op.Start, op.End
			if op.Kind == 1 {
				s, e = 0, 0xfffe
			}
			if s <= 0xff && e >= 0x100 {
				return true
			}
			for _, l := range live {
				if s <= l.e && l.s <= e {
					return true
				}
			}
			live = append(live, iv{s, e})
		}
	}
	return false
}

const c17Rule = "sequence of AddInterval/AddDefaultInterval/Clear with endpoints from {0,'a',0xFF,0x100,0x101,0x2000,0xFFFE} and references {A,B,none}, all probes looked up after every step against a newest-first interval list; non-trivial = two overlapping registrations or a range spanning U+00FF/U+0100; distinct by sequence"

func TestC17_Exhaustive(t *testing.T) {
	rec := evid.New("C17", "TestC17_Exhaustive", "C17", c17Rule)
	rec.Exhaustive = true
	rec.DupFree = true
	defer finish(t, rec)
	ops := c17AllOps()
	probes := c17AllProbes()
	depth := pick(3, 4)
	rec.Bounds = fmt.Sprintf("all sequences of length 1..%d over %d operations x %d probe characters", depth, len(ops), len(probes))
	// sequences of exact length d cover their prefixes (probed after every step); enumerate maximal ones and length-1 prefixes only once
	parallelFor(len(ops)*len(ops), func(i int) {
		seq := make([]c17Op, depth)
		seq[0], seq[1] = ops[i/len(ops)], ops[i%len(ops)]
		var rcr func(k int)
		rcr = func(k int) {
			if k == depth {
				cp := append([]c17Op{}, seq...)
				c := c17Case{cp, probes}
				rec.Case(fmt.Sprint(cp), c17NonTrivial(cp), func() interface{} { return c17CaseView(c) })
				if f := checkC17(c); f != nil {
					rec.Fail(f, c)
				}
				return
			}
			for _, o := range ops {
				seq[k] = o
				rcr(k + 1)
			}
		}
		rcr(2)
	})
}

func c17CaseView(c c17Case) interface{} {
	parts := make([]string, len(c.Ops))
	for i, o := range c.Ops {
		parts[i] = o.String()
	}
	return map[string]interface{}{"ops": parts, "probes": len(c.Probes)}
}

func genC17Rune(t *rapid.T) rune {
	if rapid.Bool().Draw(t, "ep") {
		e := rapid.SampledFrom(c17Endpoints).Draw(t, "e")
		d := rune(rapid.IntRange(-1, 1).Draw(t, "d"))
		if e+d < 0 {
			return 0
		}
		if e+d > 0xfffe {
			return 0xfffe
		}
		return e + d
	}
	return rune(rapid.IntRange(0, 0xfffe).Draw(t, "r"))
}

func TestC17_Rapid(t *testing.T) {
	rec := evid.New("C17", "TestC17_Rapid", "C17", c17Rule+"; rapid: histories of up to 12 operations with endpoints at and around the boundary set or anywhere in 0..U+FFFE, random probes")
	defer finish(t, rec)
	runRapid(t, pick(30000, 200000), 17, func(rt *rapid.T) {
		n := rapid.IntRange(1, 12).Draw(rt, "n")
		if rapid.IntRange(0, pick(79, 29)).Draw(rt, "long") == 0 {
			n = rapid.IntRange(100, 320).Draw(rt, "longn") // long histories: hundreds of registrations
		}
		var ops []c17Op
		for i := 0; i < n; i++ {
			kd := rapid.IntRange(0, 9).Draw(rt, "kind")
			if n > 12 && kd <= 1 && rapid.IntRange(0, 39).Draw(rt, "rareclear") != 0 {
				kd = 5 // long histories: Clear / AddDefaultInterval are rare, so that hundreds of registrations pile up
			}
			switch kd {
			case 0:
				ops = append(ops, c17Op{2, 0, 0, 0})
			case 1:
				ops = append(ops, c17Op{1, 0, 0, rapid.IntRange(0, 6).Draw(rt, "ref")})
			default:
				a, b := genC17Rune(rt), genC17Rune(rt)
				if a > b {
					a, b = b, a
				}
				ops = append(ops, c17Op{0, a, b, rapid.IntRange(0, 7).Draw(rt, "ref")})
				if rapid.IntRange(0, 3).Draw(rt, "adjacent") == 0 && b < 0xfff0 {
					// the neighbouring range right behind it, with an equal-looking but different reference object
					ops = append(ops, c17Op{0, b + 1, b + 1 + rune(rapid.IntRange(0, 300).Draw(rt, "width")), []int{7, 1, 2}[rapid.IntRange(0, 2).Draw(rt, "twin")]})
				}
			}
		}
		probes := append([]rune{}, c17AllProbes()...)
		for _, o := range ops {
			probes = append(probes, o.Start, o.End, o.Start-1, o.End+1)
			// code points beyond the BMP whose low 16 bits fall into the range
			probes = append(probes, 0x10000+o.Start, 0x10000+o.End, 0x20000+(o.Start+o.End)/2, 0x100000+o.Start)
			probes = append(probes, (o.Start+o.End)/2, o.Start+(o.End-o.Start)/3, o.End-(o.End-o.Start)/3)
		}
		for i := 0; i < 6; i++ {
			probes = append(probes, rune(rapid.IntRange(-2, 0x11000).Draw(rt, "probe")))
		}
		c := c17Case{ops, probes}
		rec.Case(fmt.Sprint(ops), c17NonTrivial(ops), func() interface{} { return c17CaseView(c) })
		if f := checkC17(c); f != nil {
			if rec.Fail(f, c) {
				rt.Fatalf("%v", f)
			}
		}
	})
}

// ---- second half: the maps as used by tokenizers (dispatch table, word and blank character sets)

type c17TokCase struct {
	Mode  string  `json:"mode"` // "dispatch", "word", "blank"
	Regs  []c17Op `json:"regs"` // Ref: 0 = disable / no state, 1 = enable / word state, 2 = enable / symbol state
	Input string  `json:"input"`
	// Mid (dispatch): the registrations happen while the tokenizer is reading Input - one token is fetched from the
	// same reader before every registration; what is read after the last one follows the final tables
	Mid bool `json:"mid,omitempty"`
}

func checkC17Tok(c c17TokCase) *evid.Fail {
	var res *evid.Fail
	if g := guard(func() {
		model := c17Model(c.Regs)
		switch c.Mode {
		case "dispatch":
			tok := generic.NewGenericTokenizer()
			tok.ClearCharacterStates()
			// #3: a word state of the caller's own (digits only continue a word), not the tokenizer's
			other := generic.NewGenericWordState()
			other.ClearWordChars()
			other.SetWordChars('0', '9', true)
			states := []tokenizers.ITokenizerState{nil, tok.WordState(), tok.SymbolState(), other}
			consumed, midDone := 0, false
			if c.Mid {
				tok.SetReader(rio.NewStringScanner(c.Input))
			}
			for i, r := range c.Regs {
				if c.Mid && !midDone {
					if t := tok.NextToken(); t == nil || t.Type() == tokenizers.Eof {
						midDone = true
					} else {
						consumed += len([]rune(t.Value()))
					}
				}
				if r.Kind == 2 {
					tok.ClearCharacterStates()
				} else {
					tok.SetCharacterState(r.Start, r.End, states[r.Ref])
				}
				// swapping, dropping or installing the tokenizer's state objects is not a registration
				switch (i + len(c.Input)) % 5 {
				case 0:
					tok.SetCommentState(nil)
				case 1:
					tok.SetCommentState(generic.NewCCommentState())
				case 2:
					tok.SetNumberState(nil)
				case 3:
					tok.SetQuoteState(generic.NewGenericQuoteState())
					tok.SetNumberState(generic.NewGenericNumberState())
				case 4:
					// ... not even for the states that have registrations: those keep naming the object they were given
					switch (i + len(c.Regs)) % 3 {
					case 0:
						tok.SetWordState(generic.NewGenericWordState())
					case 1:
						tok.SetSymbolState(generic.NewGenericSymbolState())
					default:
						tok.SetWhitespaceState(generic.NewGenericWhitespaceState())
					}
				}
			}
			if c.Mid && !midDone && consumed <= len([]rune(c.Input)) {
				// the rest of the text, read on through the same reader, against a tokenizer that got the same calls
				// before it ever saw a reader
				rest := string([]rune(c.Input)[consumed:])
				var got, want []string
				for n := 0; n <= len([]rune(rest))+2; n++ {
					t := tok.NextToken()
					if t == nil {
						break
					}
					got = append(got, fmt.Sprintf("%s(%q)", tokTypeName(t.Type()), t.Value()))
					if t.Type() == tokenizers.Eof {
						break
					}
				}
				ref := generic.NewGenericTokenizer()
				ref.ClearCharacterStates()
				refStates := []tokenizers.ITokenizerState{nil, ref.WordState(), ref.SymbolState(), other}
				for _, r := range c.Regs {
					if r.Kind == 2 {
						ref.ClearCharacterStates()
					} else {
						ref.SetCharacterState(r.Start, r.End, refStates[r.Ref])
					}
				}
				for _, t := range ref.TokenizeBuffer(rest) {
					want = append(want, fmt.Sprintf("%s(%q)", tokenTypeNameOf(t), t.Value()))
				}
				if fmt.Sprint(got) != fmt.Sprint(want) {
					res = evid.F("dispatch-mid-stream", "registrations %v made while reading %q (a token fetched before each): the rest %q is read as %v, a tokenizer configured the same way before reading gives %v", c.Regs, c.Input, rest, got, want)
					return
				}
			}
			for _, ch := range []rune(c.Input) {
				got := tok.GetCharacterState(ch)
				want := states[model(ch)]
				if (got == nil) != (want == nil) || (got != nil && got != want) {
					sig := "dispatch-wrong-state"
					if ch >= 0x100 {
						sig += ":above-U+00FF"
					}
					res = evid.F(sig, "after %v GetCharacterState(%#x) = %T(%v), want state #%d", c.Regs, ch, got, got != nil, model(ch))
					return
				}
				if model(ch) == 3 && ch > 0 {
					// the registered object itself reads the characters handed to it
					text := string(ch) + "9a"
					want := other.NextToken(rio.NewStringScanner(text), tok).Value()
					if want == "" {
						want = string(ch) // a state that takes nothing leaves one character to the tokenizer
					}
					toks := tok.TokenizeBuffer(text)
					if len(toks) == 0 || toks[0].Value() != want {
						v := "nothing"
						if len(toks) > 0 {
							v = fmt.Sprintf("%q", toks[0].Value())
						}
						res = evid.F("dispatch-not-the-registered-object", "after %v the text %q starts with a character registered to the caller's word state (only digits are word characters there), which reads %q from it; the tokenizer delivered %s", c.Regs, text, want, v)
						return
					}
				}
			}
		case "word", "blank":
			var st tokenizers.ITokenizerState
			if c.Mode == "word" {
				w := generic.NewGenericWordState()
				w.ClearWordChars()
				for _, r := range c.Regs {
					if r.Kind == 2 {
						w.ClearWordChars()
					} else {
						w.SetWordChars(r.Start, r.End, r.Ref != 0)
					}
				}
				st = w
			} else {
				w := generic.NewGenericWhitespaceState()
				w.ClearWhitespaceChars()
				for _, r := range c.Regs {
					if r.Kind == 2 {
						w.ClearWhitespaceChars()
					} else {
						w.SetWhitespaceChars(r.Start, r.End, r.Ref != 0)
					}
				}
				st = w
			}
			rs := []rune(c.Input)
			// the state consumes the maximal prefix of enabled characters
			n := 0
			for n < len(rs) && model(rs[n]) != 0 {
				n++
			}
			sc := rio.NewStringScanner(c.Input)
			// the state reads for a tokenizer: none, or one with options on (what the options rewrite is the tokenizer's
			// business after the state has read its run)
			var owner tokenizers.ITokenizer
			if h := len(c.Input) + len(c.Regs); h%2 == 1 {
				g := generic.NewGenericTokenizer()
				setOptions(g, []int{optMergeWhitespaces, optAll, optMergeWhitespaces | optSkipWhitespaces, optUnifyNumbers | optDecodeStrings}[(h/2)%4])
				owner = g
			}
			tk := st.NextToken(sc, owner)
			if tk == nil {
				res = evid.F("state-nil-token", "%s state returned nil for %q", c.Mode, c.Input)
				return
			}
			if tk.Value() != string(rs[:n]) {
				sig := c.Mode + "-chars-wrong-run"
				if n < len(rs) && rs[n] >= 0x100 && len([]rune(tk.Value())) > n {
					sig += ":disabled-char-above-U+00FF-accepted"
				}
				res = evid.F(sig, "after %v the %s state read %q from %q, want %q", c.Regs, c.Mode, tk.Value(), c.Input, string(rs[:n]))
				return
			}
			// and leaves the scanner right behind it
			var rest []rune
			for ch := sc.Read(); ch != -1; ch = sc.Read() {
				rest = append(rest, ch)
			}
			if string(rest) != string(rs[n:]) {
				res = evid.F(c.Mode+"-chars-scanner-position", "after reading %q from %q the scanner continues with %q, want %q", tk.Value(), c.Input, string(rest), string(rs[n:]))
			}
		}
	}); g != nil {
		return g
	}
	return res
}

func tokenTypeNameOf(t *tokenizers.Token) string { return tokTypeName(t.Type()) }

func init() { regReplay("C17.tok", checkC17Tok) }

func TestC17_RapidTokenizerMaps(t *testing.T) {
	rec := evid.New("C17", "TestC17_RapidTokenizerMaps", "C17.tok", "tokenizer-level use of the maps: SetCharacterState/GetCharacterState, SetWordChars(..,false), SetWhitespaceChars(..,false) with ranges below, above and across U+0100, checked against the same newest-first model through dispatch lookups and through the run of characters a word/blank state consumes; non-trivial = a registration above U+00FF is later overridden or disabled; distinct by (mode, registrations, input)")
	defer finish(t, rec)
	runRapid(t, pick(20000, 150000), 1717, func(rt *rapid.T) {
		mode := rapid.SampledFrom([]string{"dispatch", "word", "blank"}).Draw(rt, "mode")
		n := rapid.IntRange(1, 6).Draw(rt, "n")
		var regs []c17Op
		nt := false
		for i := 0; i < n; i++ {
			if rapid.IntRange(0, 11).Draw(rt, "clear") == 0 {
				regs = append(regs, c17Op{2, 0, 0, 0})
				continue
			}
			a, b := genC17Rune(rt), genC17Rune(rt)
			if a > b {
				a, b = b, a
			}
			maxRef := 1
			if mode == "dispatch" {
				maxRef = 3
			}
			if rapid.IntRange(0, 7).Draw(rt, "beyond") == 0 {
				// an upper bound past the last configurable character: the range is cut there, not dropped
				b = rapid.SampledFrom([]rune{0xffff, 0x10000, 0x10ffff}).Draw(rt, "beyondend")
			}
			r := c17Op{0, a, b, rapid.IntRange(0, maxRef).Draw(rt, "ref")}
			for _, old := range regs {
				if old.Kind == 0 && old.End >= 0x100 && r.Start <= old.End && old.Start <= r.End && old.Ref != r.Ref {
					nt = true
				}
			}
			regs = append(regs, r)
		}
		var sb strings.Builder
		m := c17Model(regs)
		ln := rapid.IntRange(0, 8).Draw(rt, "len")
		for i := 0; i < ln; i++ {
			// bias towards enabled characters so that runs are long enough to reach the disabled ones
			var ch rune
			if rapid.IntRange(0, 3).Draw(rt, "inreg") != 0 && len(regs) > 0 {
				r := regs[rapid.IntRange(0, len(regs)-1).Draw(rt, "ri")]
				if r.Kind == 0 {
					ch = r.Start + rune(rapid.IntRange(0, int(r.End-r.Start)).Draw(rt, "off"))
				} else {
					ch = genC17Rune(rt)
				}
			} else {
				ch = genC17Rune(rt)
			}
			if ch >= 0xd800 && ch <= 0xdfff {
				ch = 0x2000
			}
			if rapid.IntRange(0, 11).Draw(rt, "astral") == 0 {
				ch = rapid.SampledFrom([]rune{0x10000, 0x1f600, 0x2003c, 0x10ffff}).Draw(rt, "astralch") // never configurable
			}
			_ = m
			sb.WriteRune(ch)
		}
		c := c17TokCase{Mode: mode, Regs: regs, Input: sb.String()}
		if mode == "dispatch" && rapid.IntRange(0, 2).Draw(rt, "midstream") == 0 {
			// a longer text of plain and registered characters, read while the registrations are made
			c.Mid = true
			c.Input = rapid.SampledFrom([]string{"ab c1 ", "x y z w ", "é中 a ", "1 2 3 4 5 6 ", ""}).Draw(rt, "midprefix") + c.Input + " ab " + c.Input
		}
		rec.Case(jsonStr(c), nt, func() interface{} { return c }, "mode:"+mode)
		if f := checkC17Tok(c); f != nil {
			if rec.Fail(f, c) {
				rt.Fatalf("%v", f)
			}
		}
	})
}

// Every state object and tokenizer owns its character tables: a registration made on one instance (without
// clearing it first, the way a caller adds a few characters to the defaults) is invisible to instances created before
// and after it.
type c17IsoCase struct {
	Kind   string `json:"kind"` // word, blank, dispatch
	Start  rune   `json:"start"`
	End    rune   `json:"end"`
	Enable bool   `json:"enable"`
}

func c17IsoProbe(kind string, obj interface{}, probes []rune) string {
	var sb strings.Builder
	for _, ch := range probes {
		switch kind {
		case "dispatch":
			st := obj.(*generic.GenericTokenizer).GetCharacterState(ch)
			fmt.Fprintf(&sb, "%T;", st)
		default:
			// a state reads characters while they are enabled: none or both of the two
			tk := obj.(tokenizers.ITokenizerState).NextToken(rio.NewStringScanner(string(ch)+string(ch)), nil)
			fmt.Fprintf(&sb, "%d;", len([]rune(tk.Value())))
		}
	}
	return sb.String()
}

func checkC17Iso(c c17IsoCase) *evid.Fail {
	var res *evid.Fail
	if g := guard(func() {
		mk := func() interface{} {
			switch c.Kind {
			case "word":
				return generic.NewGenericWordState()
			case "blank":
				return generic.NewGenericWhitespaceState()
			}
			return generic.NewGenericTokenizer()
		}
		probes := append(c17AllProbes(), '#', 'a', 'z', ' ', '\t', 0xe0, 0x3000, 0x303f, 0x4e2d)
		before := mk()
		pristine := c17IsoProbe(c.Kind, before, probes)
		a := mk()
		switch c.Kind {
		case "word":
			a.(*generic.GenericWordState).SetWordChars(c.Start, c.End, c.Enable)
		case "blank":
			a.(*generic.GenericWhitespaceState).SetWhitespaceChars(c.Start, c.End, c.Enable)
		default:
			t := a.(*generic.GenericTokenizer)
			if c.Enable {
				t.SetCharacterState(c.Start, c.End, t.SymbolState())
			} else {
				t.SetCharacterState(c.Start, c.End, nil)
			}
		}
		after := mk()
		for which, obj := range map[string]interface{}{"created before": before, "created after": after} {
			if got := c17IsoProbe(c.Kind, obj, probes); got != pristine {
				res = evid.F("instances-share-table:"+c.Kind, "a registration [%#x..%#x] enable=%v on one %s object changed the answers of an object %s: %s, pristine %s", c.Start, c.End, c.Enable, c.Kind, which, got, pristine)
				return
			}
		}
	}); g != nil {
		return g
	}
	return res
}

func init() { regReplay("C17.iso", checkC17Iso) }

func TestC17_EnumInstanceIsolation(t *testing.T) {
	rec := evid.New("C17", "TestC17_EnumInstanceIsolation", "C17.iso", "one registration (range below, above or across U+0100; enabling or disabling) on one word state / whitespace state / tokenizer without clearing it first; an object created before and one created after must answer every probe character as a pristine object does; non-trivial = all; distinct by (kind, range, enable)")
	rec.Exhaustive = true
	rec.DupFree = true
	defer finish(t, rec)
	ranges := [][2]rune{{'#', '#'}, {'a', 'z'}, {' ', ' '}, {0, 0x7f}, {0xe0, 0xff}, {0xff, 0x101}, {0x100, 0x100}, {0x101, 0x2000}, {0x3000, 0x303f}, {0, 0xfffe}, {0xfffe, 0xfffe}}
	rec.Bounds = fmt.Sprintf("3 kinds x %d ranges x {enable, disable}", len(ranges))
	for _, kind := range []string{"word", "blank", "dispatch"} {
		for _, r := range ranges {
			for _, en := range []bool{true, false} {
				c := c17IsoCase{kind, r[0], r[1], en}
				rec.Case(jsonStr(c), true, func() interface{} { return c })
				if f := checkC17Iso(c); f != nil {
					rec.Fail(f, c)
				}
			}
		}
	}
}
