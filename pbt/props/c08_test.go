package props

import (
	"fmt"
	"math"
	"strings"
	"testing"
	"time"

	cconv "github.com/pip-services3-gox/pip-services3-commons-gox/convert"
	"github.com/pip-services3-gox/pip-services3-expressions-gox/calculator"
	"github.com/pip-services3-gox/pip-services3-expressions-gox/calculator/functions"
	"github.com/pip-services3-gox/pip-services3-expressions-gox/variants"
	"pgregory.net/rapid"
	"verif/pbt/evid"
)

// C08 — built-in functions compute what their names denote.

type c08Case struct {
	Name string `json:"name"` // as spelled (any letter case)
	Args []val  `json:"args"`
	Safe bool   `json:"safe"`
	// Host > 0: the arguments are built from host values through NewVariant / VariantFromObject (int32, uint, uint32 ...)
	Host int `json:"host,omitempty"`
}

var c08Names = []string{"Ticks", "TimeSpan", "Now", "Date", "DayOfWeek", "Min", "Max", "Sum", "If", "Choose", "E", "Pi", "Rnd", "Random", "Abs",
	"Acos", "Asin", "Atan", "Exp", "Log", "Ln", "Log10", "Ceil", "Ceiling", "Floor", "Round", "Trunc", "Truncate", "Cos", "Sin", "Tan", "Sqr", "Sqrt",
	"Empty", "Null", "Contains", "Array"}

var c08Math = map[string]func(float64) float64{
	"acos": math.Acos, "asin": math.Asin, "atan": math.Atan, "exp": math.Exp, "log": math.Log, "ln": math.Log, "log10": math.Log10,
	"ceil": math.Ceil, "ceiling": math.Ceil, "floor": math.Floor, "round": math.Round, "cos": math.Cos, "sin": math.Sin, "tan": math.Tan,
	"sqr": math.Sqrt, "sqrt": math.Sqrt,
}

// special statuses of the clock / random functions
const (
	c08Now = iota + 100
	c08Ticks
	c08Rnd
)

type c08Ref struct {
	refResult
	Special    int
	ValidArity bool
}

func c08Conv(v val, target string, safe bool) (val, refStatus, string) {
	r := refConvert(v, target, safe)
	return r.V, r.St, r.Why
}

// refFunction: what the function named `name` must return for args under the manager.
func refFunction(name string, args []val, safe bool) c08Ref {
	n := len(args)
	lower := strings.ToLower(name)
	wrongArity := c08Ref{refResult: mustErr("wrong number of arguments")}
	ok := func(r refResult) c08Ref { return c08Ref{refResult: r, ValidArity: true} }
	convAll := func(target string) ([]val, *c08Ref) {
		out := make([]val, n)
		for i, a := range args {
			v, st, why := c08Conv(a, target, safe)
			if st == refMustError {
				r := ok(mustErr("argument " + fmt.Sprint(i) + ": " + why))
				return nil, &r
			}
			if st == refFree {
				r := ok(freeRes("argument " + fmt.Sprint(i) + ": " + why))
				return nil, &r
			}
			out[i] = v
		}
		return out, nil
	}
	if f, isMath := c08Math[lower]; isMath {
		if n != 1 {
			return wrongArity
		}
		vs, bad := convAll("double")
		if bad != nil {
			return *bad
		}
		return ok(exact(vDouble(f(vs[0].f64()))))
	}
	switch lower {
	case "ticks", "now", "rnd", "random", "e", "pi", "null":
		if n != 0 {
			return wrongArity
		}
		switch lower {
		case "ticks":
			return c08Ref{refResult: freeRes("clock"), Special: c08Ticks, ValidArity: true}
		case "now":
			return c08Ref{refResult: freeRes("clock"), Special: c08Now, ValidArity: true}
		case "rnd", "random":
			return c08Ref{refResult: freeRes("random"), Special: c08Rnd, ValidArity: true}
		case "e":
			return ok(exact(vFloat(float32(math.E))))
		case "pi":
			return ok(exact(vFloat(float32(math.Pi))))
		}
		return ok(exact(vNull()))
	case "trunc", "truncate":
		if n != 1 {
			return wrongArity
		}
		vs, bad := convAll("double")
		if bad != nil {
			return *bad
		}
		f := vs[0].f64()
		if math.IsNaN(f) || !inInt64Range(f) {
			return ok(freeRes("truncation outside the long range"))
		}
		return ok(exact(vLong(int64(math.Trunc(f)))))
	case "abs":
		if n != 1 {
			return wrongArity
		}
		a := args[0]
		switch a.K {
		case "int", "long":
			if a.I == math.MinInt64 {
				return ok(freeRes("|MinInt| is not representable"))
			}
			x := a.I
			if x < 0 {
				x = -x
			}
			if a.K == "int" {
				return ok(exact(vInt(int(x))))
			}
			return ok(exact(vLong(x)))
		case "float":
			return ok(exact(vFloat(float32(math.Abs(float64(a.f32()))))))
		case "double":
			return ok(exact(vDouble(math.Abs(a.f64()))))
		}
		vs, bad := convAll("double")
		if bad != nil {
			return *bad
		}
		return ok(exact(vDouble(math.Abs(vs[0].f64()))))
	case "min", "max":
		if n < 2 {
			return wrongArity
		}
		cmp := "More"
		if lower == "max" {
			cmp = "Less"
		}
		res := args[0]
		for _, v := range args[1:] {
			r := refOperator(cmp, res, v, safe)
			if r.St != refExact || r.V.K != "bool" {
				return ok(freeRes("a Null or incomparable argument: error or a fold that skips it"))
			}
			if r.V.I != 0 {
				res = v
			}
		}
		return ok(exact(res))
	case "sum":
		if n < 2 {
			return wrongArity
		}
		res := args[0]
		for _, v := range args[1:] {
			r := refOperator("Add", res, v, safe)
			if r.St != refExact {
				return ok(refResult{St: r.St, Why: "addition: " + r.Why})
			}
			res = r.V
		}
		return ok(exact(res))
	case "if":
		if n != 3 {
			return wrongArity
		}
		c, st, why := c08Conv(args[0], "bool", safe)
		if st != refExact {
			return ok(refResult{St: st, Why: "condition: " + why})
		}
		if c.I != 0 {
			return ok(exact(args[1]))
		}
		return ok(exact(args[2]))
	case "choose":
		if n < 3 {
			return wrongArity
		}
		c, st, why := c08Conv(args[0], "int", safe)
		if st != refExact {
			return ok(refResult{St: st, Why: "selector: " + why})
		}
		switch {
		case c.I == 0:
			return ok(freeRes("Choose with selector 0"))
		case c.I < 0 || c.I >= int64(n):
			return ok(mustErr("selector outside the argument list"))
		}
		return ok(exact(args[c.I]))
	case "contains":
		if n != 2 {
			return wrongArity
		}
		for _, a := range args {
			if a.K == "null" || a.K == "array" || a.K == "object" {
				if !safe {
					return ok(freeRes("string form of " + a.K))
				}
			}
		}
		vs, bad := convAll("string")
		if bad != nil {
			return *bad
		}
		return ok(exact(vBool(strings.Contains(vs[0].S, vs[1].S))))
	case "empty":
		if n != 1 {
			return wrongArity
		}
		switch a := args[0]; {
		case a.K == "null":
			return ok(exact(vBool(true)))
		case a.K == "array" || a.K == "object" || (a.K == "string" && a.S == ""):
			return ok(freeRes("emptiness of '' / [] is not fixed"))
		}
		return ok(exact(vBool(false)))
	case "array":
		return ok(exact(vArray(args...)))
	case "timespan":
		if n != 1 && n != 3 && n != 4 && n != 5 {
			return wrongArity
		}
		vs, bad := convAll("long")
		if bad != nil {
			return *bad
		}
		if n == 1 {
			return ok(exact(vSpan(time.Millisecond * time.Duration(vs[0].I))))
		}
		get := func(i int) int64 {
			if i < n {
				return vs[i].I
			}
			return 0
		}
		ticks := (((get(0)*24+get(1))*60+get(2))*60+get(3))*1000 + get(4)
		return ok(exact(vSpan(time.Millisecond * time.Duration(ticks))))
	case "date":
		if n < 1 || n > 7 {
			return wrongArity
		}
		if n == 1 {
			vs, bad := convAll("long")
			if bad != nil {
				return *bad
			}
			return ok(exact(vTime(time.Unix(vs[0].I, 0))))
		}
		vs, bad := convAll("int")
		if bad != nil {
			return *bad
		}
		get := func(i int, def int) int {
			if i < n {
				return int(vs[i].I)
			}
			return def
		}
		for i := 0; i < n && i < 6; i++ {
			if vs[i].I > 1e6 || vs[i].I < -1e6 {
				return ok(freeRes("date component far outside the calendar"))
			}
		}
		base := time.Date(get(0, 1), time.Month(get(1, 1)), get(2, 1), get(3, 0), get(4, 0), get(5, 0), 0, time.Local)
		if n == 7 && vs[6].I != 0 {
			r := ok(freeRes("sub-second component"))
			if vs[6].I > 0 && vs[6].I < 1000 {
				r.Special = -1 // only bounded: within one second after base
				r.V = vTime(base)
			}
			return r
		}
		return ok(exact(vTime(base)))
	case "dayofweek":
		if n != 1 {
			return wrongArity
		}
		vs, bad := convAll("datetime")
		if bad != nil {
			return *bad
		}
		if args[0].K == "string" && !safe {
			// a text that spells its own offset denotes a day in that offset (the commons converter keeps it)
			return ok(exact(vInt(int(cconv.DateTimeConverter.ToDateTime(args[0].S).Weekday()))))
		}
		return ok(exact(vInt(int(vs[0].toTime().Weekday()))))
	}
	return c08Ref{refResult: freeRes("unknown function " + name)}
}

func checkC08(c c08Case) *evid.Fail {
	ops := opsManager(c.Safe)
	fc := functions.NewDefaultFunctionCollection()
	desc := fmt.Sprintf("%s(%v) safe=%v", c.Name, c.Args, c.Safe)
	f := fc.FindByName(c.Name)
	if f == nil {
		return evid.F("function-not-found", "FindByName(%q) found nothing", c.Name)
	}
	args := make([]*variants.Variant, len(c.Args))
	for i, a := range c.Args {
		args[i] = a.toVariant()
		if c.Host > 0 {
			args[i] = a.toHostVariant(c.Host + i)
		}
	}
	t0 := time.Now()
	var v *variants.Variant
	var err error
	if g := guard(func() { v, err = f.Calculate(args, ops) }); g != nil {
		g.Msg = desc + ": " + g.Msg
		return g
	}
	t1 := time.Now()
	lname := strings.ToLower(c.Name)
	if v == nil && err == nil {
		return evid.F("neither-result-nor-error:"+lname, "%s returned (nil, nil)", desc)
	}
	if v != nil && err != nil {
		return evid.F("both-result-and-error:"+lname, "%s returned a value and %v", desc, err)
	}
	for i, a := range c.Args {
		if !equalVal(fromVariant(args[i]), a) {
			return evid.F("argument-mutated:"+lname, "%s changed argument %d to %s", desc, i, fromVariant(args[i]))
		}
	}
	want := refFunction(c.Name, c.Args, c.Safe)
	var got val
	if err == nil {
		got = fromVariant(v)
	}
	switch {
	case want.St == refMustError:
		if err == nil {
			sig := "value-for-invalid-call:" + lname
			if !want.ValidArity {
				sig = "wrong-arity-accepted:" + lname
			}
			return evid.F(sig, "%s = %s, but %s", desc, got, want.Why)
		}
	case want.St == refExact:
		if err != nil {
			return evid.F("error-for-valid-call:"+lname, "%s failed with %v, expected %s", desc, err, want.V)
		}
		if !equalVal(got, want.V) {
			sig := "wrong-value:" + lname
			if got.K != want.V.K {
				sig = "wrong-result-type:" + lname
			}
			return evid.F(sig, "%s = %s, expected %s", desc, got, want.V)
		}
	case want.Special == c08Ticks:
		if err != nil || got.K != "long" || got.I < t0.Unix() || got.I > t1.Unix() {
			return evid.F("clock-out-of-interval:ticks", "%s = %s (%v), call interval [%d, %d]", desc, got, err, t0.Unix(), t1.Unix())
		}
	case want.Special == c08Now:
		if err != nil || got.K != "datetime" || got.toTime().Before(t0.Add(-time.Microsecond)) || got.toTime().After(t1.Add(time.Microsecond)) {
			return evid.F("clock-out-of-interval:now", "%s = %s (%v), call interval [%v, %v]", desc, got, err, t0, t1)
		}
	case want.Special == c08Rnd:
		if err != nil || got.K != "float" || !(got.f32() >= 0 && got.f32() < 1) {
			return evid.F("random-out-of-range", "%s = %s (%v)", desc, got, err)
		}
	case want.Special == -1:
		if err == nil {
			base := want.V.toTime()
			if got.K != "datetime" || got.toTime().Before(base) || !got.toTime().Before(base.Add(time.Second)) {
				return evid.F("wrong-value:date", "%s = %s, expected an instant within the second starting at %s", desc, got, want.V)
			}
		}
	}
	if want.Special == 0 && err == nil {
		if f := aliasProbe(v, args, func() (*variants.Variant, error, *evid.Fail) {
			var v2 *variants.Variant
			var err2 error
			g := guard(func() { v2, err2 = f.Calculate(args, ops) })
			return v2, err2, g
		}); f != nil {
			f.Sig += ":" + lname
			f.Msg = desc + ": " + f.Msg
			return f
		}
	}
	// the same call through an expression gives the same outcome ('Null' is a keyword there)
	if lname != "null" && len(c.Args) <= 8 {
		var names []string
		var bs []binding
		for i, a := range c.Args {
			names = append(names, fmt.Sprintf("a%d", i))
			bs = append(bs, binding{fmt.Sprintf("a%d", i), a})
		}
		expr := c.Name + "(" + strings.Join(names, ", ") + ")"
		calc := calculator.NewExpressionCalculator()
		calc.SetVariantOperations(ops)
		var ev *variants.Variant
		var eerr error
		if g := guard(func() {
			if eerr = calc.SetExpression(expr); eerr == nil {
				ev, eerr = calc.EvaluateUsingVariables(makeVars(bs))
			}
		}); g != nil {
			g.Msg = fmt.Sprintf("expression %q with %v: %s", expr, bs, g.Msg)
			return g
		}
		if ev == nil && eerr == nil {
			return evid.F("neither-result-nor-error:expression:"+lname, "expression %q returned (nil, nil)", expr)
		}
		deterministic := want.Special == 0
		// the parsed expression is evaluated a second time: a call consumes nothing of the compiled program
		if deterministic {
			var ev2 *variants.Variant
			var eerr2 error
			if g := guard(func() { ev2, eerr2 = calc.EvaluateUsingVariables(makeVars(bs)) }); g != nil {
				g.Msg = fmt.Sprintf("second evaluation of %q with %v: %s", expr, bs, g.Msg)
				return g
			}
			if resultRepr(ev2, eerr2) != resultRepr(ev, eerr) {
				return evid.F("second-evaluation-differs:"+lname, "expression %q with %v: first evaluation %s, second evaluation of the same parsed expression %s", expr, bs, resultRepr(ev, eerr), resultRepr(ev2, eerr2))
			}
		}
		if (eerr == nil) != (err == nil) || (deterministic && eerr == nil && !equalVal(fromVariant(ev), got)) {
			return evid.F("direct-vs-expression:"+lname, "%s: direct call gives %s, expression %q gives %s", desc, resultRepr(v, err), expr, resultRepr(ev, eerr))
		}
		// arguments written as literals where the language has a literal for the value, and the operations manager
		// selected only after the expression was set
		lits := make([]string, len(c.Args))
		allLit := true
		for i, a := range c.Args {
			switch {
			case a.K == "int" && a.I >= 0 && a.I < 1<<53:
				lits[i] = fmt.Sprint(a.I)
				if a.I%2 == 0 && a.I < 5000 {
					lits[i] = "0" + lits[i] // integer literals are decimal, leading zeros or not
				}
			case a.K == "int" && a.I < 0 && a.I > -(1<<53):
				lits[i] = fmt.Sprintf("(0 - %d)", -a.I)
			case a.K == "string" && !strings.ContainsAny(a.S, "\x00"):
				lits[i] = "'" + strings.ReplaceAll(a.S, "'", "''") + "'"
			case a.K == "bool":
				lits[i] = map[bool]string{true: "TRUE", false: "false"}[a.I != 0]
			case a.K == "float" && a.f32() == float32(int32(a.f32()*4))/4 && a.f32() >= 0:
				lits[i] = strings.TrimRight(fmt.Sprintf("%.2f", a.f32()), "0")
			default:
				allLit = false
			}
		}
		if allLit && len(c.Args) > 0 && deterministic {
			lexpr := c.Name + "(" + strings.Join(lits, ", ") + ")"
			calc2 := calculator.NewExpressionCalculator()
			var lv *variants.Variant
			var lerr error
			if g := guard(func() {
				if lerr = calc2.SetExpression(lexpr); lerr == nil {
					calc2.SetVariantOperations(ops) // after the expression
					lv, lerr = calc2.Evaluate()
				}
			}); g != nil {
				g.Msg = fmt.Sprintf("expression %q: %s", lexpr, g.Msg)
				return g
			}
			if (lerr == nil) != (err == nil) || (lerr == nil && !equalVal(fromVariant(lv), got)) {
				return evid.F("direct-vs-literal-expression:"+lname, "%s: direct call gives %s, expression %q (manager set after the expression) gives %s", desc, resultRepr(v, err), lexpr, resultRepr(lv, lerr))
			}
		}
	}
	return nil
}

func init() { regReplay("C08", checkC08) }

const c08Rule = "function name (any letter case) x argument list (0..8 values) x manager, called directly and through an expression; oracle: reference table written from the statement (arity set, result type and value per IEEE double arithmetic on the converted argument, selection functions return the selected argument, clock/random functions inside their ranges, wrong arity and inapplicable arguments must fail, never (nil, nil)); non-trivial = valid arity and the reference fixes the outcome; distinct by (name, arguments, manager)"

func c08Run(rec *evid.Recorder, c c08Case) bool {
	want := refFunction(c.Name, c.Args, c.Safe)
	arity := "invalid-arity:"
	if want.ValidArity {
		arity = "valid-arity:"
	}
	rec.Case(jsonStr(c), want.ValidArity && want.St != refFree, func() interface{} { return fmt.Sprintf("%s(%v) safe=%v -> %s", c.Name, c.Args, c.Safe, want.St) },
		arity+strings.ToLower(c.Name), "ref:"+want.St.String())
	if f := checkC08(c); f != nil {
		return rec.Fail(f, c)
	}
	return false
}

var c08SubPool = []val{vNull(), vInt(0), vInt(-7), vInt(3), vLong(-9223372036854775807), vLong(9007199254740993), vDouble(2.5), vDouble(-0.5), vFloat(1.5), vString("abc"), vString("12"), vString(""),
	vBool(true), vSpan(1500 * time.Millisecond), vTime(time.Date(2020, 2, 29, 12, 0, 0, 0, time.UTC)), vArray(vInt(1), vString("a")),
	vTime(time.Date(2024, 1, 1, 1, 30, 0, 0, east3)),
	// doubles beside a rounding tie and odd integers with 53 significant bits (fixed points of every rounding function)
	vDouble(0.49999999999999994), vDouble(-0.49999999999999994), vDouble(4503599627370497), vLong(4503599627370497), vDouble(-2.5), vDouble(1.5),
	// instants written with an offset of their own, close to midnight there; time spans inside one millisecond
	vString("2024-01-02T01:30:00+14:00"), vString("2024-01-01T22:30:00-11:00"), vSpan(250 * time.Microsecond), vSpan(900 * time.Microsecond), vSpan(-999 * time.Microsecond),
	// two more instants inside the second of the one above: ordering is by instant, not by calendar second
	vTime(time.Date(2020, 2, 29, 12, 0, 0, 750000000, time.UTC)), vTime(time.Date(2020, 2, 29, 12, 0, 0, 250000001, time.UTC))}

func TestC08_Exhaustive(t *testing.T) {
	rec := evid.New("C08", "TestC08_Exhaustive", "C08", c08Rule)
	rec.Exhaustive = true
	rec.DupFree = true
	defer finish(t, rec)
	rec.Bounds = fmt.Sprintf("all 37 names x argument lists of length 0..2 over a %d-value sub-pool, plus lengths 3..8 filled from the sub-pool at rotating offsets, x 2 managers", len(c08SubPool))
	parallelFor(len(c08Names), func(i int) {
		name := c08Names[i]
		for _, safe := range []bool{false, true} {
			c08Run(rec, c08Case{Name: name, Safe: safe})
			for _, a := range c08SubPool {
				c08Run(rec, c08Case{Name: name, Args: []val{a}, Safe: safe})
				c08Run(rec, c08Case{Name: name, Args: []val{a}, Safe: safe, Host: 1 + len(name)%3})
				for _, b := range c08SubPool {
					c08Run(rec, c08Case{Name: name, Args: []val{a, b}, Safe: safe})
				}
			}
			for n := 3; n <= 8; n++ {
				for off := 0; off < len(c08SubPool); off++ {
					args := make([]val, n)
					for k := range args {
						args[k] = c08SubPool[(off+k*(n-1))%len(c08SubPool)]
					}
					c08Run(rec, c08Case{Name: name, Args: args, Safe: safe})
				}
			}
		}
	})
	var need []string
	for _, n := range c08Names {
		need = append(need, "valid-arity:"+strings.ToLower(n))
		if n != "Array" {
			need = append(need, "invalid-arity:"+strings.ToLower(n))
		}
	}
	requireLabels(t, rec, need...)
}

func TestC08_Rapid(t *testing.T) {
	rec := evid.New("C08", "TestC08_Rapid", "C08", c08Rule+"; rapid: names in random letter case, 0..8 arguments from the boundary pool or fresh random values, biased towards valid arities and numeric arguments")
	defer finish(t, rec)
	runRapid(t, pick(40000, 300000), 8, func(rt *rapid.T) {
		name := rapid.SampledFrom(c08Names).Draw(rt, "name")
		var sb strings.Builder
		for _, r := range name {
			switch rapid.IntRange(0, 2).Draw(rt, "case") {
			case 0:
				sb.WriteString(strings.ToLower(string(r)))
			case 1:
				sb.WriteString(strings.ToUpper(string(r)))
			default:
				sb.WriteRune(r)
			}
		}
		n := rapid.SampledFrom([]int{0, 1, 1, 1, 2, 2, 3, 3, 4, 5, 6, 7, 8}).Draw(rt, "argc")
		args := make([]val, n)
		for i := range args {
			if rapid.IntRange(0, 2).Draw(rt, "numeric") == 0 {
				args[i] = rapid.SampledFrom([]val{vInt(0), vInt(1), vInt(2), vInt(-3), vInt(2020), vInt(12), vInt(31), vLong(5), vDouble(0.25), vDouble(-1.5), vDouble(100), vFloat(0.75), vString("2"), vBool(true)}).Draw(rt, "num")
			} else {
				args[i] = genValue(rt, 1)
			}
		}
		if c08Run(rec, c08Case{Name: sb.String(), Args: args, Safe: rapid.IntRange(0, 3).Draw(rt, "safe") == 0, Host: rapid.SampledFrom([]int{0, 0, 0, 1, 2, 3}).Draw(rt, "host")}) {
			rt.Fatalf("C08 violated")
		}
	})
}

// TestC08_EnumRandomRange: Rnd / Random stay inside [0, 1) over tens to hundreds of millions of draws. This is
// the one place where the oracle is a range over samples of the library's own random source (the functions use the
// process-wide generator, which the harness cannot seed per case); the count of draws is the evidence.
func TestC08_EnumRandomRange(t *testing.T) {
	rec := evid.New("C08", "TestC08_EnumRandomRange", "C08", c08Rule+"; random range: every draw of Rnd / Random must lie in [0, 1)")
	defer finish(t, rec)
	perWorker := pick(8000000, 40000000)
	workers := 16
	rec.Bounds = fmt.Sprintf("%d draws of Rnd and Random (%d workers x %d)", workers*perWorker, workers, perWorker)
	var bad int64
	parallelFor(workers, func(w int) {
		name := []string{"Rnd", "Random"}[w%2]
		f := functions.NewDefaultFunctionCollection().FindByName(name)
		ops := opsManager(w%4 < 2)
		for i := 0; i < perWorker; i++ {
			v, err := f.Calculate(nil, ops)
			if err != nil || v == nil || v.Type() != variants.Float || !(v.AsFloat() >= 0 && v.AsFloat() < 1) {
				c := c08Case{Name: name, Safe: w%4 < 2}
				rec.Fail(evid.F("random-out-of-range", "%s() returned %s (%v) after %d draws", name, resultRepr(v, err), err, i), c)
				bad++
				return
			}
		}
		rec.Label("draws:"+name, int64(perWorker))
	})
	for w := 0; w < workers; w++ {
		c := c08Case{Name: []string{"Rnd", "Random"}[w%2], Safe: w%4 < 2}
		rec.Case(fmt.Sprintf("worker %d", w), true, func() interface{} { return fmt.Sprintf("%s() x %d", c.Name, perWorker) })
	}
}

// Every default collection is its caller's own: removing, adding or clearing functions in one collection leaves
// the collections created before and after it complete (37 functions, same order, every name resolvable).
func TestC08_EnumCollectionIsolation(t *testing.T) {
	rec := evid.New("C08", "TestC08_EnumCollectionIsolation", "C08.isolation", "one default function collection is modified (Remove(i) for every i, RemoveByName for every name, Add of a user function, Clear); a collection created before and one created after must still hold all 37 default functions in order, every one found by name in any letter case; non-trivial = all; distinct by operation")
	rec.Exhaustive = true
	rec.DupFree = true
	defer finish(t, rec)
	var ops []string
	for i := range c08Names {
		ops = append(ops, fmt.Sprintf("remove:%d", i), "removebyname:"+c08Names[i])
	}
	ops = append(ops, "add", "clear", "add-remove-first")
	rec.Bounds = fmt.Sprintf("%d operations", len(ops))
	for _, op := range ops {
		rec.Case(op, true, func() interface{} { return op })
		if f := checkC08Isolation(op); f != nil {
			rec.Fail(f, op)
		}
	}
}

func checkC08Isolation(op string) *evid.Fail {
	var res *evid.Fail
	if g := guard(func() {
		before := functions.NewDefaultFunctionCollection()
		a := functions.NewDefaultFunctionCollection()
		user := functions.NewDelegatedFunction("UserFn", func(p []*variants.Variant, o variants.IVariantOperations) (*variants.Variant, error) {
			return variants.VariantFromInteger(1), nil
		})
		switch {
		case strings.HasPrefix(op, "remove:"):
			var i int
			fmt.Sscanf(op, "remove:%d", &i)
			a.Remove(i)
		case strings.HasPrefix(op, "removebyname:"):
			a.RemoveByName(strings.ToUpper(strings.TrimPrefix(op, "removebyname:")))
		case op == "add":
			a.Add(user)
		case op == "clear":
			a.Clear()
		default:
			a.Add(user)
			a.Remove(0)
		}
		after := functions.NewDefaultFunctionCollection()
		for which, col := range map[string]*functions.DefaultFunctionCollection{"created before": before, "created after": after} {
			if col.Length() != len(c08Names) {
				res = evid.F("collection-shared:length", "after %s on another collection, a default collection %s has %d functions, not %d", op, which, col.Length(), len(c08Names))
				return
			}
			for i, n := range c08Names {
				f := col.FindByName(strings.ToLower(n))
				if f == nil || !strings.EqualFold(f.Name(), n) || col.FindIndexByName(n) != i || !strings.EqualFold(col.Get(i).Name(), n) {
					res = evid.F("collection-shared:contents", "after %s on another collection, a default collection %s no longer has %s at position %d", op, which, n, i)
					return
				}
			}
		}
	}); g != nil {
		return g
	}
	return res
}

func init() { regReplay("C08.isolation", checkC08Isolation) }

// ---------------------------------------------------------------------------------------
// One function collection and one manager over a history of calls whose arguments are objects the caller keeps and
// reassigns in place between the calls, or results of earlier calls; every call against the function reference, every
// result handed out earlier keeps its value (a function that writes into a converted argument, a result object that
// is handed out twice, a table entry that remembers its last call).

type c08HStep struct {
	Name  string `json:"name"`
	Args  []int  `json:"args"` // sources: 0..2 = the caller's objects X, Y, Z; 3 = a fresh variant from Fresh; 4+k = the k-th kept result
	Set   *val   `json:"set,omitempty"`
	Slot  int    `json:"slot"`
	Fresh val    `json:"fresh"`
}

type c08HistCase struct {
	Safe  bool       `json:"safe"`
	Init  []val      `json:"init"`
	Steps []c08HStep `json:"steps"`
}

func checkC08Hist(c c08HistCase) *evid.Fail {
	ops := opsManager(c.Safe)
	fc := functions.NewDefaultFunctionCollection()
	slots := make([]*variants.Variant, 3)
	model := make([]val, 3)
	for i := range slots {
		model[i] = vNull()
		if i < len(c.Init) {
			model[i] = c.Init[i]
		}
		slots[i] = model[i].toVariant()
	}
	type kept struct {
		v    *variants.Variant
		was  val
		step int
	}
	var held []kept
	for i, s := range c.Steps {
		if s.Set != nil {
			slots[s.Slot%3].Assign(s.Set.toVariant())
			model[s.Slot%3] = *s.Set
		}
		f := fc.FindByName(s.Name)
		if f == nil {
			return evid.F("function-not-found", "step %d: FindByName(%q) found nothing", i, s.Name)
		}
		var args []*variants.Variant
		var argVals []val
		for _, src := range s.Args {
			switch {
			case src >= 0 && src <= 2:
				args, argVals = append(args, slots[src]), append(argVals, model[src])
			case src >= 4 && len(held) > 0:
				k := held[(src-4)%len(held)]
				args, argVals = append(args, k.v), append(argVals, k.was)
			default:
				args, argVals = append(args, s.Fresh.toVariant()), append(argVals, s.Fresh)
			}
		}
		desc := fmt.Sprintf("step %d of %d on one function collection and one manager (arguments kept and reassigned in place by the caller): %s(%v) safe=%v", i, len(c.Steps), s.Name, argVals, c.Safe)
		lname := strings.ToLower(s.Name)
		var v *variants.Variant
		var err error
		if g := guard(func() { v, err = f.Calculate(args, ops) }); g != nil {
			g.Msg = desc + ": " + g.Msg
			return g
		}
		if v == nil && err == nil {
			return evid.F("neither-result-nor-error:"+lname, "%s returned (nil, nil)", desc)
		}
		if v != nil && err != nil {
			return evid.F("both-result-and-error:"+lname, "%s returned a value and %v", desc, err)
		}
		for j := range args {
			if !equalVal(fromVariant(args[j]), argVals[j]) {
				return evid.F("argument-mutated:"+lname, "%s changed argument %d to %s", desc, j, fromVariant(args[j]))
			}
		}
		want := refFunction(s.Name, argVals, c.Safe)
		if want.Special == 0 {
			switch {
			case want.St == refMustError && err == nil:
				return evid.F("history:value-for-invalid-call:"+lname, "%s = %s, but %s", desc, fromVariant(v), want.Why)
			case want.St == refExact && err != nil:
				return evid.F("history:error-for-valid-call:"+lname, "%s failed with %v, expected %s", desc, err, want.V)
			case want.St == refExact && !equalVal(fromVariant(v), want.V):
				return evid.F("history:wrong-value:"+lname, "%s = %s, expected %s", desc, fromVariant(v), want.V)
			}
		}
		for _, k := range held {
			if now := fromVariant(k.v); !equalVal(now, k.was) {
				return evid.F("earlier-result-changed:"+lname, "%s: the result of step %d was %s and now is %s", desc, k.step, k.was, now)
			}
		}
		if err == nil && v != nil {
			own := true
			for _, a := range append(append([]*variants.Variant{}, args...), slots...) {
				if variantWithin(v, a) || variantWithin(a, v) {
					own = false // If / Choose / Min / Max hand an argument back, Array keeps its arguments as elements: those follow their owner
				}
			}
			for _, k := range held {
				if variantWithin(v, k.v) || variantWithin(k.v, v) {
					own = false
				}
			}
			if own {
				held = append(held, kept{v, fromVariant(v), i})
			}
		}
	}
	return nil
}

func init() { regReplay("C08.hist", checkC08Hist) }

func TestC08_RapidHistories(t *testing.T) {
	rec := evid.New("C08", "TestC08_RapidHistories", "C08.hist", "histories of 2..10 calls of deterministic standard functions on ONE function collection and ONE manager, arguments drawn from three objects the caller keeps and reassigns in place, fresh values and earlier results; each call against the function reference, results handed out earlier keep their value; non-trivial = an argument object reassigned in place is passed again; distinct by case")
	defer finish(t, rec)
	var names []string
	for _, n := range c08Names {
		switch strings.ToLower(n) {
		case "ticks", "now", "rnd", "random", "date":
		default:
			names = append(names, n)
		}
	}
	runRapid(t, pick(15000, 120000), 888, func(rt *rapid.T) {
		c := c08HistCase{Safe: rapid.IntRange(0, 3).Draw(rt, "safe") == 0}
		for i := 0; i < 3; i++ {
			c.Init = append(c.Init, rapid.SampledFrom(c08SubPool).Draw(rt, "init"))
		}
		cur := append([]val{}, c.Init...)
		nt := false
		n := rapid.IntRange(2, 10).Draw(rt, "n")
		for i := 0; i < n; i++ {
			s := c08HStep{Name: rapid.SampledFrom(names).Draw(rt, "name"), Fresh: rapid.SampledFrom(c08SubPool).Draw(rt, "fresh"), Slot: rapid.IntRange(0, 2).Draw(rt, "slot")}
			if rapid.IntRange(0, 2).Draw(rt, "set") == 0 {
				v := cur[s.Slot]
				switch v.K {
				case "int":
					v = vInt(int(v.I) + 1)
				case "long":
					v = vLong(v.I - 1)
				case "double":
					v = vDouble(v.f64() + 1.5)
				case "float":
					v = vFloat(v.f32() + 2)
				case "string":
					v = vString(v.S + "1")
				default:
					v = rapid.SampledFrom(c08SubPool).Draw(rt, "other")
				}
				s.Set, cur[s.Slot], nt = &v, v, true
			}
			argc := rapid.SampledFrom([]int{1, 1, 1, 2, 2, 3}).Draw(rt, "argc")
			for k := 0; k < argc; k++ {
				s.Args = append(s.Args, rapid.SampledFrom([]int{0, 0, 1, 1, 2, 3, 4, 5}).Draw(rt, "src"))
			}
			c.Steps = append(c.Steps, s)
		}
		rec.Case(jsonStr(c), nt, func() interface{} { return c }, fmt.Sprintf("safe:%v", c.Safe))
		if f := checkC08Hist(c); f != nil {
			if rec.Fail(f, c) {
				rt.Fatalf("%v", f)
			}
		}
	})
}
