package props

import (
	"fmt"
	"github.com/pip-services3-gox/pip-services3-expressions-gox/calculator"
	"github.com/pip-services3-gox/pip-services3-expressions-gox/calculator/functions"
	"github.com/pip-services3-gox/pip-services3-expressions-gox/calculator/variables"
	"github.com/pip-services3-gox/pip-services3-expressions-gox/mustache"
	mtok "github.com/pip-services3-gox/pip-services3-expressions-gox/mustache/tokenizers"
	"github.com/pip-services3-gox/pip-services3-expressions-gox/variants"
	"strings"
	"testing"

	cparsers "github.com/pip-services3-gox/pip-services3-expressions-gox/calculator/parsers"
	"github.com/pip-services3-gox/pip-services3-expressions-gox/tokenizers"
	"pgregory.net/rapid"
	"verif/pbt/evid"
)

// C12 — every token reports the line and column of its first character.

type c12Case struct {
	Tok   string `json:"tok"`
	Opts  int    `json:"opts"`
	Input string `json:"input"`
}

func checkC12(c c12Case) *evid.Fail { return checkC12Using(c, tokenizeFresh) }

// positions of the base (option-free) tokens: offsets follow from C04 (values concatenate to the input),
// coordinates from the scanner's forward-scan rule; Eof sits one column past the last character.
func c12BasePositions(input string, base []tk) ([][2]int, *evid.Fail) {
	rs := []rune(input)
	coords := refCoords(rs)
	pos := make([][2]int, len(base))
	off := 0
	for i, b := range base {
		if b.T == tokenizers.Eof {
			pos[i] = [2]int{coords[len(rs)][0], coords[len(rs)][1] + 1}
			continue
		}
		n := len([]rune(b.V))
		if off+n > len(rs) || string(rs[off:off+n]) != b.V {
			// not lossless: C04's subject; C12 cannot place the token
			return nil, evid.F("segmentation-not-lossless", "token %d %s does not match the input %q at offset %d", i, b, input, off)
		}
		pos[i] = coords[off+1]
		off += n
	}
	return pos, nil
}

func checkC12Using(c c12Case, tokenize func(string, int, string) ([]tk, *evid.Fail)) *evid.Fail {
	base, f := tokenize(c.Tok, 0, c.Input)
	if f != nil {
		return f
	}
	pos, f := c12BasePositions(c.Input, base)
	if f != nil {
		return f
	}
	out := base
	var mapping [][]int
	if c.Opts == 0 {
		mapping = make([][]int, len(base))
		for i := range base {
			mapping[i] = []int{i}
		}
	} else {
		out, f = tokenize(c.Tok, c.Opts, c.Input)
		if f != nil {
			return f
		}
		mapping, f = alignTokens(c.Tok, base, c.Opts, out)
		if f != nil {
			// the option run is not the base run with whole tokens dropped/rewritten: C15's subject
			return evid.F("unalignable:"+f.Sig, "%s", f.Msg)
		}
	}
	for i, o := range out {
		ok := false
		for _, bi := range mapping[i] {
			if o.L == pos[bi][0] && o.C == pos[bi][1] {
				ok = true
			}
		}
		if !ok {
			bi := mapping[i][0]
			sig := "position:" + tokTypeName(o.T)
			switch {
			case i > 0 && mapping[i-1][len(mapping[i-1])-1] != bi-1:
				sig += ":after-skipped-token"
			case o.T != base[bi].T || o.V != base[bi].V:
				sig += ":recreated-token"
			}
			return evid.F(sig, "%s tokenizer, options %s, input %q: token %d %s should be at %d:%d; all tokens: %s",
				c.Tok, optNames(c.Opts), c.Input, i, o, pos[bi][0], pos[bi][1], tksString(out))
		}
	}
	return nil
}

func c12NonTrivial(c c12Case) bool {
	// a token preceded by a line break, or an option set that skips / re-creates tokens
	return strings.ContainsAny(c.Input, "\r\n") || c.Opts != 0
}

func init() { regReplay("C12", checkC12) }

const c12Rule = "tokenizer x option set x input; oracle: each token's (line, column) equals the reference forward-scan coordinates of the first character of the base token it stems from (C15 aligner), Eof one column past the last character; non-trivial = multi-line input or an option set that skips/re-creates tokens; distinct by (tokenizer, options, input)"

// 16 representative option sets: none, each single option, and combinations that re-create or skip tokens
var c12OptSets = []int{0, optSkipUnknown, optSkipWhitespaces, optSkipComments, optSkipEof, optMergeWhitespaces, optUnifyNumbers, optDecodeStrings,
	optSkipComments | optDecodeStrings, optSkipComments | optSkipWhitespaces, optSkipUnknown | optMergeWhitespaces, optSkipComments | optUnifyNumbers,
	optSkipWhitespaces | optSkipComments | optSkipEof | optDecodeStrings, optSkipUnknown | optSkipComments | optSkipEof, optAll, optAll &^ optSkipEof}

var c12Alphabet = []string{"a", "1", "'", "\"", "/", "*", "#", ".", "-", "<", "=", "{", "}", ",", " ", "\n", "\r", "é", "😀"}

func c12Run(rec *evid.Recorder, c c12Case) bool {
	rec.Case(fmt.Sprintf("%s|%d|%s", c.Tok, c.Opts, c.Input), c12NonTrivial(c), func() interface{} { return c }, "tok:"+c.Tok, fmt.Sprintf("opts:%d", c.Opts))
	if f := checkC12Using(c, tokenizeWith); f != nil {
		if ff := checkC12(c); ff != nil {
			return rec.Fail(ff, c)
		}
		return rec.Fail(evid.F("reused-instance-only:"+f.Sig, "%s", f.Msg), c)
	}
	return false
}

func TestC12_Exhaustive(t *testing.T) {
	rec := evid.New("C12", "TestC12_Exhaustive", "C12", c12Rule)
	rec.Exhaustive = true
	rec.DupFree = true
	defer finish(t, rec)
	maxLen := pick(4, 4)
	optSets := c12OptSets
	if thorough() {
		optSets = allOptSets()
	}
	rec.Bounds = fmt.Sprintf("all strings of length 0..%d over the %d-symbol alphabet %q x %d option sets x 4 tokenizers", maxLen, len(c12Alphabet), strings.Join(c12Alphabet, ""), len(optSets))
	enumStrings(c12Alphabet, maxLen, true, func(parts []string) {
		in := runesOf(parts)
		for ki, k := range tokKindsExt {
			for oi, o := range optSets {
				if ki >= len(tokKinds) && !thorough() && oi%4 != 0 {
					continue // quick tier: the user-configured kinds under every fourth option set
				}
				c12Run(rec, c12Case{k, o, in})
			}
		}
	})
}

// genMultiline draws multi-line inputs with every break style and every token class at every offset.
func genMultiline(t *rapid.T, kind string) string {
	breaks := []string{"\n", "\r", "\r\n", "\n\r", "\n\n", "\r\r", "\r\n\r\n", " \n ", "\t"}
	n := rapid.IntRange(0, 10).Draw(t, "n")
	var sb strings.Builder
	if rapid.IntRange(0, 24).Draw(t, "long") == 0 {
		// long inputs: offsets past 1024 / 2048 and line numbers in the hundreds
		line := genOptInput(t, kind)
		br := rapid.SampledFrom(breaks[:4]).Draw(t, "longbr")
		for sb.Len() < rapid.IntRange(1000, 2600).Draw(t, "longlen") {
			sb.WriteString(line)
			sb.WriteString(br)
			if len(line) == 0 {
				sb.WriteString("x")
			}
		}
	}
	for i := 0; i < n; i++ {
		switch rapid.IntRange(0, 3).Draw(t, "k") {
		case 0:
			sb.WriteString(rapid.SampledFrom(breaks).Draw(t, "br"))
		default:
			sb.WriteString(genOptInput(t, kind))
		}
		if sb.Len() > 3000 {
			break
		}
	}
	return sb.String()
}

func TestC12_Rapid(t *testing.T) {
	rec := evid.New("C12", "TestC12_Rapid", "C12", c12Rule+"; rapid: multi-line fragment-built inputs x random option set out of all 128")
	defer finish(t, rec)
	runRapid(t, pick(40000, 300000), 12, func(rt *rapid.T) {
		kind := rapid.SampledFrom(tokKindsExt).Draw(rt, "tok")
		c := c12Case{kind, rapid.IntRange(0, optAll).Draw(rt, "opts"), genMultiline(rt, kind)}
		if c12Run(rec, c) {
			rt.Fatalf("C12 violated for %+v", c)
		}
	})
	if thorough() && !captureMode {
		var missing []string
		for o := 0; o <= optAll; o++ {
			if rec.LabelCount(fmt.Sprintf("opts:%d", o)) == 0 {
				missing = append(missing, fmt.Sprint(o))
			}
		}
		if len(missing) > 0 {
			t.Fatalf("HARNESS-ERROR vacuous run: option sets never drawn: %v", missing)
		}
	}
}

// ---- positions quoted in syntax-error messages point at the offending token ---------------------------------

type c12ErrCase struct {
	Toks []etok   `json:"toks"`
	Seps []string `json:"seps"` // separator written before each token (blanks and line breaks)
}

func checkC12Err(c c12ErrCase) *evid.Fail {
	if len(c.Toks) == 0 {
		return nil
	}
	tree, failAt := refParse(c.Toks)
	if hasJunk(c.Toks) {
		// a character outside the language is reported by the lexical pass, which runs first and in input order:
		// the offending token is the first such character
		for i, t := range c.Toks {
			if hasJunk([]etok{t}) {
				tree, failAt = nil, i
				break
			}
		}
	}
	accepted := tree != nil
	if !accepted && failAt >= len(c.Toks) {
		return nil
	}
	var sb strings.Builder
	offsets := make([]int, len(c.Toks))
	for i, t := range c.Toks {
		sep := " "
		if i < len(c.Seps) {
			sep = c.Seps[i]
		}
		if i == 0 {
			sep = "" // the parser trims the expression
		}
		sb.WriteString(sep)
		offsets[i] = len([]rune(sb.String()))
		sb.WriteString(t.S)
	}
	src := sb.String()
	if accepted {
		return checkC12Runtime(c, src, offsets)
	}
	p := cparsers.NewExpressionParser()
	var err error
	if g := guard(func() { err = p.ParseString(src) }); g != nil {
		return g
	}
	if err == nil {
		return nil // acceptance of non-sentences is C02's subject
	}
	m := errPosRe.FindStringSubmatch(err.Error())
	if m == nil {
		return nil
	}
	want := refCoords([]rune(src))[offsets[failAt]+1]
	if m[1] != fmt.Sprint(want[0]) || m[2] != fmt.Sprint(want[1]) {
		return evid.F("error-position", "input %q: the error %q quotes %s:%s, the offending token #%d %q stands at %d:%d", src, err.Error(), m[1], m[2], failAt, c.Toks[failAt].S, want[0], want[1])
	}
	return nil
}

// checkC12Runtime: an accepted expression evaluated without its variables / without its (single) function fails with
// an error that names the missing identifier; the position it quotes is that identifier's token.
func checkC12Runtime(c c12ErrCase, src string, offsets []int) *evid.Fail {
	firstVar, calls, theCall := -1, 0, -1
	for i, t := range c.Toks {
		if t.K != "i" {
			continue
		}
		if i+1 < len(c.Toks) && c.Toks[i+1].S == "(" {
			calls++
			theCall = i
		} else if firstVar < 0 {
			firstVar = i
		}
	}
	coords := refCoords([]rune(src))
	check := func(what string, err error, at int) *evid.Fail {
		if err == nil || at < 0 || !strings.Contains(err.Error(), what) || !strings.Contains(err.Error(), "was not found") {
			return nil
		}
		m := errPosRe.FindStringSubmatch(err.Error())
		if m == nil {
			return nil
		}
		want := coords[offsets[at]+1]
		if m[1] != fmt.Sprint(want[0]) || m[2] != fmt.Sprint(want[1]) {
			return evid.F("error-position:not-found", "input %q: the error %q quotes %s:%s, the identifier %q stands at %d:%d", src, err.Error(), m[1], m[2], c.Toks[at].S, want[0], want[1])
		}
		return nil
	}
	var res *evid.Fail
	if g := guard(func() {
		calc := calculator.NewExpressionCalculator()
		calc.SetAutoVariables(false)
		if calc.SetExpression(src) != nil {
			return
		}
		_, err := calc.EvaluateUsingVariables(variables.NewVariableCollection())
		if res = check("Variable ", err, firstVar); res != nil || calls != 1 {
			return
		}
		vc := variables.NewVariableCollection()
		for _, t := range c.Toks {
			if t.K == "i" && vc.FindByName(identName(t.S)) == nil {
				vc.Add(variables.NewVariable(identName(t.S), variants.VariantFromInteger(1)))
			}
		}
		_, err = calc.EvaluateUsingVariablesAndFunctions(vc, functions.NewFunctionCollection())
		res = check("Function ", err, theCall)
	}); g != nil {
		return g
	}
	return res
}

func init() { regReplay("C12.err", checkC12Err) }

func TestC12_RapidErrorPositions(t *testing.T) {
	rec := evid.New("C12", "TestC12_RapidErrorPositions", "C12.err", "generated valid expressions with 1-3 token-level mutations, written over several lines; when the reference grammar rejects the sequence at token k and the parser's error quotes a position, it must be the line and column of token k (the statement's last sentence); non-trivial = the offending token is not the first one; distinct by source text")
	defer finish(t, rec)
	cfg := c02GenCfg()
	runRapid(t, pick(20000, 150000), 1212, func(rt *rapid.T) {
		tree := genSized(rt, cfg, rapid.SampledFrom([]int{1, 2, 3, 4, 6, 8, 12}).Draw(rt, "size"))
		toks := printTokens(tree, rapid.IntRange(0, 2).Draw(rt, "style"), nil)
		for m := rapid.IntRange(1, 3).Draw(rt, "mutations"); m > 0 && len(toks) > 0; m-- {
			i := rapid.IntRange(0, len(toks)-1).Draw(rt, "at")
			switch rapid.IntRange(0, 3).Draw(rt, "mut") {
			case 0:
				toks = append(toks[:i], append([]etok{rapid.SampledFrom(c02Vocabulary).Draw(rt, "ins")}, toks[i:]...)...)
			case 1:
				toks = append(append([]etok{}, toks[:i]...), toks[i+1:]...)
			case 2:
				toks = append([]etok{}, toks...)
				toks[i] = rapid.SampledFrom(c02Vocabulary).Draw(rt, "rep")
			default:
				toks = append(toks[:i+1], append([]etok{toks[i]}, toks[i+1:]...)...)
			}
		}
		c := c12ErrCase{Toks: toks}
		for range toks {
			c.Seps = append(c.Seps, rapid.SampledFrom([]string{" ", " ", "  ", "\n", "\r\n", " \n  ", "\t"}).Draw(rt, "sep"))
		}
		_, failAt := refParse(toks)
		rec.Case(jsonStr(c), failAt > 0 && failAt < len(toks), func() interface{} { return c })
		if f := checkC12Err(c); f != nil && rec.Fail(f, c) {
			rt.Fatalf("%v", f)
		}
	})
}

// ---- positions quoted in template syntax errors point at a token of the template -------------------------------

type c12TmplErrCase struct {
	Template string `json:"template"`
}

func checkC12TmplErr(c c12TmplErrCase) *evid.Fail {
	src := strings.Trim(c.Template, " \t\r\n") // the parser trims the template before it tokenizes it
	if src == "" {
		return nil
	}
	var err error
	var starts map[[2]int]bool
	var endTags [][4]int
	if g := guard(func() {
		err = mustache.NewMustacheTemplate().SetTemplate(c.Template)
		if err == nil {
			return
		}
		t := mtok.NewMustacheTokenizer()
		starts = map[[2]int]bool{}
		toks := t.TokenizeBuffer(src)
		for _, tk := range toks {
			starts[[2]int{tk.Line(), tk.Column()}] = true
		}
		// the closing tags of the template: from their opening braces to their closing braces
		for i := 0; i < len(toks); i++ {
			if toks[i].Type() != tokenizers.Symbol || (toks[i].Value() != "{{" && toks[i].Value() != "{{{") {
				continue
			}
			j := i + 1
			for j < len(toks) && toks[j].Type() == tokenizers.Whitespace {
				j++
			}
			if j >= len(toks) || toks[j].Value() != "/" {
				continue
			}
			for j < len(toks) && !(toks[j].Type() == tokenizers.Symbol && (toks[j].Value() == "}}" || toks[j].Value() == "}}}")) {
				j++
			}
			if j < len(toks) {
				endTags = append(endTags, [4]int{toks[i].Line(), toks[i].Column(), toks[j].Line(), toks[j].Column()})
			}
		}
	}); g != nil {
		return g
	}
	if err == nil {
		return nil
	}
	m := errPosRe.FindStringSubmatch(err.Error())
	if m == nil {
		return nil
	}
	var line, col int
	fmt.Sscan(m[1], &line)
	fmt.Sscan(m[2], &col)
	if !starts[[2]int{line, col}] {
		return evid.F("error-position:template", "template %q: the error %q quotes %d:%d, where no token of the template starts", c.Template, err.Error(), line, col)
	}
	// a section end that is not expected is the offending token itself: the position lies in a closing tag
	if strings.Contains(err.Error(), "nexpected section end") {
		inTag := false
		for _, e := range endTags {
			after := line > e[0] || (line == e[0] && col >= e[1])
			before := line < e[2] || (line == e[2] && col <= e[3])
			inTag = inTag || (after && before)
		}
		if !inTag {
			return evid.F("error-position:template:section-end", "template %q: the error %q quotes %d:%d, which is not inside any closing tag %v", c.Template, err.Error(), line, col, endTags)
		}
	}
	return nil
}

func init() { regReplay("C12.tmplerr", checkC12TmplErr) }

func TestC12_RapidTemplateErrorPositions(t *testing.T) {
	rec := evid.New("C12", "TestC12_RapidTemplateErrorPositions", "C12.tmplerr", "generated templates written over several lines with 1-2 tag-level mutations; when SetTemplate rejects one and the error quotes a position, a token of the template (as the Mustache tokenizer cuts it, which C12's main check verifies) must start exactly there; non-trivial = the template was rejected with a position on a line other than the first; distinct by template")
	defer finish(t, rec)
	runRapid(t, pick(15000, 120000), 121212, func(rt *rapid.T) {
		budget := rapid.SampledFrom([]int{3, 5, 8, 12}).Draw(rt, "budget")
		tree := fixEdges(genNodes(rt, rapid.IntRange(1, 4).Draw(rt, "depth"), &budget))
		var sb strings.Builder
		sb.WriteString(strings.Repeat("a line of text\n", rapid.IntRange(0, 6).Draw(rt, "lead")))
		sb.WriteString(strings.Repeat(" ", rapid.IntRange(0, 9).Draw(rt, "indent")))
		mPrint(tree, &sb)
		src := c10Damage(rt, sb.String())
		if rapid.Bool().Draw(rt, "breaks") {
			src = strings.ReplaceAll(src, "}} ", "}}\n ")
		}
		c := c12TmplErrCase{src}
		err := mustache.NewMustacheTemplate().SetTemplate(src)
		nt := false
		if err != nil {
			if m := errPosRe.FindStringSubmatch(err.Error()); m != nil && m[1] != "1" {
				nt = true
			}
		}
		rec.Case(src, nt, func() interface{} { return c }, fmt.Sprintf("rejected:%v", err != nil))
		if f := checkC12TmplErr(c); f != nil && rec.Fail(f, c) {
			rt.Fatalf("%v", f)
		}
	})
	requireLabels(t, rec, "rejected:true")
}

// ---------------------------------------------------------------------------------------
// Sizes: tokens far to the right on one long line and far down after many short lines (positions around the powers
// of two up to 2^17 columns / 2^16 lines), described rather than spelled out.

type c12BigCase struct {
	Tok   string `json:"tok"`
	Opts  int    `json:"opts"`
	Shape string `json:"shape"` // longline | manylines
	N     int    `json:"n"`
}

func (c c12BigCase) input() string {
	if c.Shape == "manylines" {
		return "x" + strings.Repeat("\n", c.N) + "ab 12 'q' /* c */ <= y"
	}
	return "ab, " + strings.Repeat("w", c.N) + " x 12 'q' /* c */ <= y\nz 7"
}

func checkC12Big(c c12BigCase) *evid.Fail {
	f := checkC12(c12Case{c.Tok, c.Opts, c.input()})
	if f != nil {
		if len(f.Msg) > 500 {
			f.Msg = f.Msg[:250] + " ... " + f.Msg[len(f.Msg)-250:]
		}
		f.Msg = fmt.Sprintf("%s tokenizer, options %s, %s of size %d: %s", c.Tok, optNames(c.Opts), c.Shape, c.N, f.Msg)
	}
	return f
}

func init() { regReplay("C12.big", checkC12Big) }

func TestC12_EnumSizes(t *testing.T) {
	rec := evid.New("C12", "TestC12_EnumSizes", "C12.big", c12Rule+"; sizes: one line of 2^k-1, 2^k, 2^k+1 characters (k = 8..17) followed by tokens of every class, and 2^k short lines (k = 8..16) followed by such tokens, x 4 tokenizers x 3 option sets")
	rec.Exhaustive = true
	rec.DupFree = true
	defer finish(t, rec)
	var cases []c12BigCase
	for _, tok := range tokKinds {
		for _, opts := range []int{0, optAll &^ optSkipEof, optUnifyNumbers | optDecodeStrings | optSkipWhitespaces}[:pick(2, 3)] {
			for k := 8; k <= 17; k++ {
				for d := -1; d <= 1; d++ {
					cases = append(cases, c12BigCase{tok, opts, "longline", 1<<uint(k) + d})
				}
				if k <= 16 && (tok != "csv" || k <= 12) { // every line end is a token of its own for the CSV tokenizer
					cases = append(cases, c12BigCase{tok, opts, "manylines", 1<<uint(k) - 1}, c12BigCase{tok, opts, "manylines", 1 << uint(k)})
				}
			}
		}
	}
	rec.Bounds = fmt.Sprintf("%d described inputs", len(cases))
	parallelFor(len(cases), func(i int) {
		c := cases[i]
		rec.Case(jsonStr(c), true, func() interface{} { return c }, "shape:"+c.Shape)
		if f := checkC12Big(c); f != nil {
			rec.Fail(f, c)
		}
	})
}
