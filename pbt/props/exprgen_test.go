package props

import (
	"strings"

	"pgregory.net/rapid"
)

// Grammar-level generator of expression syntax trees (construction, no rejection), printers
// (minimal / random redundant / full parentheses) and the speller (spacing, comments, keyword case).

type genCfg struct {
	vars     []string // variable names to draw from
	funcs    []string // function names to draw from (arity free)
	consts   func(t *rapid.T) string
	noLike   bool // leave LIKE / NOT LIKE out (there is no LIKE operation to evaluate)
	maxArgs  int
	identGen func(t *rapid.T, base string) string // re-spelling of identifiers (letter case, quoting)
	budget   int                                  // remaining number of operator / call nodes (size control)
}

// spend takes one unit of the size budget; false = only leaves from here on.
func (c *genCfg) spend() bool {
	if c.budget <= 0 {
		return false
	}
	c.budget--
	return true
}

func defaultConst(t *rapid.T) string {
	switch rapid.IntRange(0, 9).Draw(t, "ck") {
	case 0:
		return rapid.SampledFrom([]string{"TRUE", "FALSE"}).Draw(t, "bool")
	case 1:
		return rapid.SampledFrom([]string{"'a'", "'b'", "''", "'x''y'", "'12'", "'é'", "'1.5'", "'a''b''c'", "''''", "''''''", "'''a'", "'a'''", "'\"'", "'a\"\"b'", "'a\u00a0b'", "'x  y'", "'\t'", "'中 文'", "'/* c */'", "'a\u3000'"}).Draw(t, "str")
	case 2:
		return rapid.SampledFrom([]string{"0.5", "2.5", "1.", ".25", "1e2", "2.5E-1", "3e+0"}).Draw(t, "flt")
	default:
		return rapid.SampledFrom([]string{"0", "1", "2", "3", "5", "7", "11", "13", "64", "100", "9007199254740992", "010", "007", "0100"}).Draw(t, "int")
	}
}

func genExpr(t *rapid.T, cfg *genCfg, depth int) *node { return genLevel(t, cfg, 0, depth) }

// genSized generates a tree with at most `size` operator / call nodes.
func genSized(t *rapid.T, cfg *genCfg, size int) *node {
	cfg.budget = size
	return genLevel(t, cfg, 0, 8)
}

func genChain(t *rapid.T, cfg *genCfg, lv, depth int, ops []string) *node {
	l := genLevel(t, cfg, lv+1, depth)
	for k := 0; k < 3 && depth > 0; k++ {
		if rapid.IntRange(0, 9).Draw(t, "more") > 3+lvBias(lv) || !cfg.spend() {
			break
		}
		op := rapid.SampledFrom(ops).Draw(t, "op")
		r := genLevel(t, cfg, lv+1, depth-1)
		l = &node{Op: op, Kids: []*node{l, r}}
	}
	return l
}

func lvBias(lv int) int {
	if lv == 3 || lv == 4 {
		return 1
	}
	return 0
}

func genLevel(t *rapid.T, cfg *genCfg, lv, depth int) *node {
	switch lv {
	case 0:
		return genChain(t, cfg, 0, depth, []string{"AND", "OR", "XOR"})
	case 1:
		if depth > 0 && rapid.IntRange(0, 7).Draw(t, "not") == 0 && cfg.spend() {
			return &node{Op: "not", Kids: []*node{genLevel(t, cfg, 2, depth-1)}}
		}
		return genLevel(t, cfg, 2, depth)
	case 2:
		return genChain(t, cfg, 2, depth, []string{"=", "<>", ">", "<", ">=", "<="})
	case 3:
		l := genLevel(t, cfg, 4, depth)
		for k := 0; k < 3 && depth > 0 && cfg.spend(); k++ {
			c := rapid.IntRange(0, 19).Draw(t, "addk")
			switch {
			case c <= 3:
				op := rapid.SampledFrom([]string{"+", "+", "-", "-", "NOTIN"}).Draw(t, "aop")
				l = &node{Op: op, Kids: []*node{l, genLevel(t, cfg, 4, depth-1)}}
			case c == 4 && !cfg.noLike:
				op := rapid.SampledFrom([]string{"LIKE", "NOTLIKE"}).Draw(t, "lop")
				l = &node{Op: op, Kids: []*node{l, genLevel(t, cfg, 4, depth-1)}}
			case c == 5:
				l = &node{Op: rapid.SampledFrom([]string{"isnull", "isnotnull"}).Draw(t, "pop"), Kids: []*node{l}}
			default:
				return l
			}
		}
		return l
	case 4:
		return genChain(t, cfg, 4, depth, []string{"*", "/", "%"})
	case 5:
		return genChain(t, cfg, 5, depth, []string{"^", "IN", "<<", ">>"})
	case 6:
		var n *node
		// primary
		k := rapid.IntRange(0, 11).Draw(t, "prim")
		switch {
		case depth > 0 && k == 0 && cfg.spend():
			n = genExpr(t, cfg, depth-1)
			n.Par++
		case depth > 0 && k == 1 && len(cfg.funcs) > 0 && cfg.spend():
			name := rapid.SampledFrom(cfg.funcs).Draw(t, "fn")
			argc := rapid.IntRange(0, cfg.maxArgs).Draw(t, "argc")
			if rapid.IntRange(0, 11).Draw(t, "manyargs") == 0 {
				argc = rapid.IntRange(cfg.maxArgs, 4*cfg.maxArgs+4).Draw(t, "argcmany") // long argument lists (9th, 16th argument ...)
			}
			n = &node{Op: "call", Tok: cfg.ident(t, name)}
			for i := 0; i < argc; i++ {
				n.Kids = append(n.Kids, genExpr(t, cfg, depth-1))
			}
		case k <= 6:
			n = &node{Op: "var", Tok: cfg.ident(t, rapid.SampledFrom(cfg.vars).Draw(t, "var"))}
		default:
			n = &node{Op: "const", Tok: cfg.consts(t)}
		}
		if cfg.budget > 0 {
			switch rapid.IntRange(0, 9).Draw(t, "sign") {
			case 0:
				n = &node{Op: "neg", Kids: []*node{n}}
			case 1:
				n = &node{Op: "pos", Kids: []*node{n}}
			}
		}
		if depth > 0 && rapid.IntRange(0, 9).Draw(t, "index") == 0 && cfg.spend() {
			n = &node{Op: "index", Kids: []*node{n, genExpr(t, cfg, depth-1)}}
		}
		return n
	}
	return genLevel(t, cfg, lv+1, depth) // levels without own production fall through
}

func (c *genCfg) ident(t *rapid.T, base string) string {
	if c.identGen != nil {
		return c.identGen(t, base)
	}
	return base
}

// ---------------------------------------------------------------------------------------
// printing: tree -> token list

const (
	parensMinimal = iota
	parensRandom
	parensFull
)

type printer struct {
	style int
	extra func() bool // parensRandom: add a redundant pair here?
	toks  []etok
}

func (p *printer) op(s string) { p.toks = append(p.toks, etok{"o", s}) }
func (p *printer) emit(n *node, need int) {
	pairs := n.Par
	if n.level() < need && pairs == 0 {
		pairs = 1
	}
	leaf := n.Op == "const" || n.Op == "var"
	switch p.style {
	case parensFull:
		if !leaf && pairs == 0 {
			pairs = 1
		}
	case parensRandom:
		if p.extra() {
			pairs++
		}
	}
	for i := 0; i < pairs; i++ {
		p.op("(")
	}
	switch n.Op {
	case "const":
		p.toks = append(p.toks, etok{"c", n.Tok})
	case "var":
		p.toks = append(p.toks, etok{"i", n.Tok})
	case "call":
		p.toks = append(p.toks, etok{"i", n.Tok})
		p.op("(")
		for i, a := range n.Kids {
			if i > 0 {
				p.op(",")
			}
			p.emit(a, 0)
		}
		p.op(")")
	case "neg", "pos":
		if n.Op == "neg" {
			p.op("-")
		} else {
			p.op("+")
		}
		p.emit(n.Kids[0], 8)
	case "index":
		p.emit(n.Kids[0], 7)
		p.op("[")
		p.emit(n.Kids[1], 0)
		p.op("]")
	case "not":
		p.op("NOT")
		p.emit(n.Kids[0], 2)
	case "isnull":
		p.emit(n.Kids[0], 3)
		p.op("IS")
		p.op("NULL")
	case "isnotnull":
		p.emit(n.Kids[0], 3)
		p.op("IS")
		p.op("NOT")
		p.op("NULL")
	default:
		lv := binLevel[n.Op]
		p.emit(n.Kids[0], lv)
		switch n.Op {
		case "NOTLIKE":
			p.op("NOT")
			p.op("LIKE")
		case "NOTIN":
			p.op("NOT")
			p.op("IN")
		default:
			p.op(n.Op)
		}
		p.emit(n.Kids[1], lv+1)
	}
	for i := 0; i < pairs; i++ {
		p.op(")")
	}
}

func printTokens(n *node, style int, extra func() bool) []etok {
	p := &printer{style: style, extra: extra}
	if p.extra == nil {
		p.extra = func() bool { return false }
	}
	p.emit(n, 0)
	return p.toks
}

// ---------------------------------------------------------------------------------------
// spelling: token list -> source text

func wordy(t etok) bool {
	if t.K != "o" {
		return !strings.HasPrefix(t.S, "'")
	}
	c := t.S[0]
	return (c >= 'A' && c <= 'Z') || (c >= 'a' && c <= 'z')
}

// mustSeparate: would the two spellings merge into another token if written without a separator?
func mustSeparate(a, b string) bool {
	if a == "" || b == "" {
		return false
	}
	la := a[len(a)-1]
	fb := b[0]
	isW := func(c byte) bool {
		return c == '_' || c == '.' || c == '"' || c == '\'' || c >= 0x80 || (c >= '0' && c <= '9') || (c >= 'A' && c <= 'Z') || (c >= 'a' && c <= 'z')
	}
	if isW(la) && isW(fb) {
		return true
	}
	switch string([]byte{la, fb}) {
	case "<=", ">=", "<>", "!=", ">>", "<<", "/*":
		return true
	}
	return false
}

// spellPlain joins with single blanks (the form used by the exhaustive enumerations).
func spellPlain(toks []etok) string {
	parts := make([]string, len(toks))
	for i, t := range toks {
		parts[i] = t.S
	}
	return strings.Join(parts, " ")
}

// genBlockComment draws a block comment with an arbitrary body (slashes, stars, quotes, operators, line breaks);
// the only thing a body cannot contain is the terminator itself.
func genBlockComment(t *rapid.T) string {
	var sb strings.Builder
	for n := rapid.IntRange(0, 6).Draw(t, "cparts"); n > 0; n-- {
		sb.WriteString(rapid.SampledFrom([]string{"/", "*", "**", "//", "/*", "a", "tot", " ", "+", "- 3", "'", "\"", "\n", "é", "(", ")", "1"}).Draw(t, "cpart"))
	}
	body := sb.String()
	for strings.Contains(body, "*/") {
		body = strings.ReplaceAll(body, "*/", "* /")
	}
	return "/*" + body + "*/"
}

// spellRandom draws keyword letter case, the spelling of <>, and separators (none where legal, blanks,
// tabs, line breaks, comments).
func spellRandom(t *rapid.T, toks []etok) string {
	var sb strings.Builder
	prev := ""
	for _, tok := range toks {
		s := tok.S
		if tok.K == "o" {
			if s == "<>" && rapid.Bool().Draw(t, "ne") {
				s = "!="
			}
			if wordy(tok) {
				var w strings.Builder
				for _, r := range s {
					if rapid.Bool().Draw(t, "lc") {
						w.WriteString(strings.ToLower(string(r)))
					} else {
						w.WriteRune(r)
					}
				}
				s = w.String()
			}
		}
		// every character up to the blank is whitespace for the expression tokenizer, the rarely typed ones included
		sep := rapid.SampledFrom([]string{"", "", "", " ", " ", "  ", "\t", "\n", "\r\n", " /* c */ ", "/**/", "/* a+b */", "\f", "\v", " \x01 ", "\x1f", "\x00", "\r"}).Draw(t, "sep")
		if rapid.IntRange(0, 9).Draw(t, "gencomment") == 0 {
			sep = genBlockComment(t)
		}
		if sep == "" && mustSeparate(prev, s) {
			sep = " "
		}
		if prev == "" {
			sep = strings.TrimLeft(sep, " \t\r\n") // the parser trims the whole expression anyway
		}
		// a comment separator directly after '/' or before '*' would itself merge
		if strings.HasPrefix(sep, "/") && strings.HasSuffix(prev, "/") {
			sep = " " + sep
		}
		sb.WriteString(sep)
		sb.WriteString(s)
		prev = s
	}
	return sb.String()
}
