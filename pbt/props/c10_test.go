package props

import (
	"fmt"
	"regexp"
	"sort"
	"strings"
	"testing"

	"github.com/pip-services3-gox/pip-services3-expressions-gox/mustache"
	"pgregory.net/rapid"
	"verif/pbt/evid"
)

// C10 — Mustache rendering equals the reference semantics; malformed input is rejected.

// mnode is a template syntax tree node.
type mnode struct {
	Kind  string   `json:"kind"` // text var esc comment sec inv
	Val   string   `json:"val,omitempty"`
	Kids  []*mnode `json:"kids,omitempty"`
	Spell int      `json:"spell,omitempty"` // sections: bit0 = keyword opener (#if / #unless), bit1 = keyword closer (/if, /unless); all tags: bit2 = triple braces where legal
	Pad   []string `json:"pad,omitempty"`   // blanks inside the tag(s)
}

func mEscape(s string) string {
	var sb strings.Builder
	for _, r := range s {
		switch r {
		case '\\':
			sb.WriteString(`\\`)
		case '"':
			sb.WriteString(`\"`)
		case '/':
			sb.WriteString(`\/`)
		case '\b':
			sb.WriteString(`\b`)
		case '\f':
			sb.WriteString(`\f`)
		case '\n':
			sb.WriteString(`\n`)
		case '\r':
			sb.WriteString(`\r`)
		case '\t':
			sb.WriteString(`\t`)
		default:
			sb.WriteRune(r)
		}
	}
	return sb.String()
}

func mLookup(vars map[string]string, name string) (string, bool) {
	for k, v := range vars {
		if strings.ToLower(k) == strings.ToLower(name) {
			return v, true
		}
	}
	return "", false
}

// mRender is the reference renderer.
func mRender(nodes []*mnode, vars map[string]string, sb *strings.Builder) {
	for _, n := range nodes {
		v, present := mLookup(vars, n.Val)
		switch n.Kind {
		case "text":
			sb.WriteString(n.Val)
		case "var":
			sb.WriteString(v)
		case "esc":
			sb.WriteString(mEscape(v))
		case "sec":
			if present && v != "" {
				mRender(n.Kids, vars, sb)
			}
		case "inv":
			if !(present && v != "") {
				mRender(n.Kids, vars, sb)
			}
		}
	}
}

func pad(n *mnode, i int) string {
	if i < len(n.Pad) {
		return n.Pad[i]
	}
	return ""
}

// mPrint writes the tree as template source.
func mPrint(nodes []*mnode, sb *strings.Builder) {
	for _, n := range nodes {
		open, close := "{{", "}}"
		if n.Spell&4 != 0 {
			open, close = "{{{", "}}}"
		}
		switch n.Kind {
		case "text":
			sb.WriteString(n.Val)
		case "var":
			sb.WriteString("{{" + pad(n, 0) + n.Val + pad(n, 1) + "}}")
		case "esc":
			sb.WriteString("{{{" + pad(n, 0) + n.Val + pad(n, 1) + "}}}")
		case "comment":
			sb.WriteString(open + pad(n, 0) + "!" + n.Val + close)
		case "sec", "inv":
			op, kw := "#", ""
			if n.Spell&1 != 0 {
				kw = "if"
				if n.Kind == "inv" {
					kw = "unless"
				}
			} else if n.Kind == "inv" {
				op = "^"
			}
			sb.WriteString(open + pad(n, 0) + op + pad(n, 1))
			if kw != "" {
				sb.WriteString(kw + " " + pad(n, 2))
			}
			sb.WriteString(n.Val + pad(n, 3) + close)
			mPrint(n.Kids, sb)
			// closer: by name, or by the keyword of its own kind
			copen, cclose := "{{", "}}"
			if n.Spell&8 != 0 {
				copen, cclose = "{{{", "}}}"
			}
			if n.Spell&2 != 0 {
				ckw := "if"
				if n.Kind == "inv" {
					ckw = "unless"
				}
				sb.WriteString(copen + pad(n, 4) + "/" + pad(n, 5) + ckw + pad(n, 6) + cclose)
			} else {
				sb.WriteString(copen + pad(n, 4) + "/" + pad(n, 5) + n.Val + pad(n, 6) + cclose)
			}
		}
	}
}

type c10Case struct {
	Tree     []*mnode            `json:"tree"`
	Template string              `json:"template"`
	Maps     []map[string]string `json:"maps"`
}

func sortedMap(m map[string]string) string {
	keys := make([]string, 0, len(m))
	for k := range m {
		keys = append(keys, k)
	}
	sort.Strings(keys)
	parts := make([]string, len(keys))
	for i, k := range keys {
		parts[i] = fmt.Sprintf("%q:%q", k, m[k])
	}
	return "{" + strings.Join(parts, ", ") + "}"
}

func checkC10(c c10Case) *evid.Fail {
	t := mustache.NewMustacheTemplate()
	var err error
	if g := guard(func() {
		defaults := map[string]string{}
		for _, n := range c10Names {
			defaults[n] = "DEFAULT-" + n
		}
		t.SetDefaultVariables(defaults)
		err = t.SetTemplate(c.Template)
	}); g != nil {
		g.Msg = fmt.Sprintf("SetTemplate(%q): %s", c.Template, g.Msg)
		return g
	}
	if err != nil {
		sig := "well-formed-rejected"
		if strings.Contains(c.Template, "!") && hasKind(c.Tree, "comment") {
			sig = "well-formed-rejected:comment"
		}
		return evid.F(sig, "well-formed template %q was rejected: %v", c.Template, err)
	}
	// the same template set on an object whose previous templates were rejected (syntax and lexical failures)
	used := mustache.NewMustacheTemplate()
	if g := guard(func() {
		defaults := map[string]string{}
		for _, n := range c10Names {
			defaults[strings.ToUpper(n)] = "DEFAULT-" + n
		}
		used.SetDefaultVariables(defaults)
		used.SetTemplate("x{{/a}}")
		used.SetTemplate("{{#a}}x{{/b}}y")
		used.SetTemplate("{{a}")
		err = used.SetTemplate(c.Template)
	}); g != nil {
		g.Msg = fmt.Sprintf("SetTemplate(%q) after rejected templates: %s", c.Template, g.Msg)
		return g
	}
	if err != nil {
		return evid.F("well-formed-rejected:after-rejected-template", "well-formed template %q was rejected by an object whose previous templates had been rejected: %v", c.Template, err)
	}
	for mi, m := range c.Maps {
		var want strings.Builder
		mRender(c.Tree, m, &want)
		var got string
		var rerr error
		subject := t
		if mi == len(c.Maps)-1 {
			subject = used
		}
		if g := guard(func() { got, rerr = subject.EvaluateWithVariables(m) }); g != nil {
			g.Msg = fmt.Sprintf("render %q with %s: %s", c.Template, sortedMap(m), g.Msg)
			return g
		}
		if rerr != nil {
			return evid.F("render-error", "rendering %q with %s failed: %v", c.Template, sortedMap(m), rerr)
		}
		if got != want.String() {
			sig := "render-mismatch"
			switch {
			case hasKind(c.Tree, "esc") && mEscapeDiffers(m):
				sig = "render-mismatch:escaping"
			case hasKind(c.Tree, "sec") || hasKind(c.Tree, "inv"):
				sig = "render-mismatch:sections"
			}
			return evid.F(sig, "template %q with %s rendered %q, the reference semantics give %q", c.Template, sortedMap(m), got, want.String())
		}
	}
	// the other entry points agree: constructor from text, token-list entry, default variables + Evaluate()
	if len(c.Maps) > 0 {
		m := c.Maps[0]
		var want strings.Builder
		mRender(c.Tree, m, &want)
		var r1, r2, r3 string
		var e1, e2, e3 error
		if g := guard(func() {
			var t1 *mustache.MustacheTemplate
			if t1, e1 = mustache.NewMustacheTemplateFromString(c.Template); e1 == nil {
				r1, e1 = t1.EvaluateWithVariables(m)
			}
			t2 := mustache.NewMustacheTemplate()
			t2.SetTemplate("held before: {{zz}} {{#q}}w{{/q}}") // the token-list entry replaces what the object held
			if e2 = t2.SetOriginalTokens(t.OriginalTokens()); e2 == nil {
				r2, e2 = t2.EvaluateWithVariables(m)
			}
			t3 := mustache.NewMustacheTemplate()
			cp := map[string]string{}
			for k, v := range m {
				cp[k] = v
			}
			t3.SetDefaultVariables(cp)
			if e3 = t3.SetTemplate(c.Template); e3 == nil {
				r3, e3 = t3.Evaluate()
			}
		}); g != nil {
			g.Msg = fmt.Sprintf("alternative entry points for %q: %s", c.Template, g.Msg)
			return g
		}
		for i, r := range []string{r1, r2, r3} {
			if err := []error{e1, e2, e3}[i]; err != nil || r != want.String() {
				return evid.F("entry-points-differ", "template %q with %s: entry point #%d (FromString / SetOriginalTokens / defaults+Evaluate) gives %q (%v), the reference semantics give %q", c.Template, sortedMap(m), i+1, r, err, want.String())
			}
		}
	}
	// the caller's map object is edited in place between two renderings (the values rotated among the same keys, then
	// one key taken out, then put back under another letter case), as the map passed to the call and as the default
	// variables behind Evaluate(): every rendering uses the map as it is at the time
	if len(c.Maps) > 0 && len(c.Maps[0]) > 0 {
		for _, viaDefaults := range []bool{false, true} {
			live := map[string]string{}
			var keys []string
			for k, v := range c.Maps[0] {
				live[k] = v
				keys = append(keys, k)
			}
			sort.Strings(keys)
			obj := mustache.NewMustacheTemplate()
			render := func() (string, error) {
				if viaDefaults {
					return obj.Evaluate()
				}
				return obj.EvaluateWithVariables(live)
			}
			var stage string
			var got, wantS string
			var rerr error
			if g := guard(func() {
				if viaDefaults {
					obj.SetDefaultVariables(live)
				}
				if rerr = obj.SetTemplate(c.Template); rerr != nil {
					return
				}
				render()
				edits := []func(){
					func() { // rotate the values
						first := live[keys[0]]
						for i := 0; i+1 < len(keys); i++ {
							live[keys[i]] = live[keys[i+1]]
						}
						live[keys[len(keys)-1]] = first + "'"
					},
					func() { delete(live, keys[0]) },
					func() { live[strings.ToUpper(keys[0])+""] = "back" },
				}
				for i, edit := range edits {
					edit()
					if i == 2 && strings.ToLower(strings.ToUpper(keys[0])) != strings.ToLower(keys[0]) {
						stage = "" // a key whose case forms do not fold back is left alone
						return
					}
					stage = []string{"values rotated", "a key removed", "the key back in upper case"}[i]
					var want strings.Builder
					mRender(c.Tree, live, &want)
					wantS = want.String()
					if got, rerr = render(); rerr != nil || got != wantS {
						return
					}
				}
				stage = ""
			}); g != nil {
				g.Msg = fmt.Sprintf("template %q, caller's map edited in place: %s", c.Template, g.Msg)
				return g
			}
			if stage != "" {
				return evid.F("stale-after-map-edit", "template %q parsed once (defaults=%v); after the caller edited its map in place (%s) it holds %s and the rendering is %q (%v), the reference semantics give %q", c.Template, viaDefaults, stage, sortedMap(live), got, rerr, wantS)
			}
		}
	}
	return nil
}

func mEscapeDiffers(m map[string]string) bool {
	for _, v := range m {
		if mEscape(v) != v {
			return true
		}
	}
	return false
}

func hasKind(nodes []*mnode, kind string) bool {
	for _, n := range nodes {
		if n.Kind == kind || hasKind(n.Kids, kind) {
			return true
		}
	}
	return false
}

func mDepth(nodes []*mnode) int {
	d := 0
	for _, n := range nodes {
		if n.Kind == "sec" || n.Kind == "inv" {
			if k := 1 + mDepth(n.Kids); k > d {
				d = k
			}
		}
	}
	return d
}

func init() { regReplay("C10", checkC10) }

// ---------------------------------------------------------------------------------------
// generator of template trees

// names: ASCII, digits, '-' and '_', Latin-1, and letters whose case mapping changes the UTF-8 length
var c10Names = []string{"a", "b", "name", "X1", "long_name", "user-id", "é", "n0", "Ⱥb", "ẞx", "İd", "ǅ", "2fa", "1st", "9", "_x", "a-",
	// long names: 32, 33 and 70 characters
	"n234567890123456789012345678901_", "n2345678901234567890123456789012X", "a_very_long_variable_name_that_goes_on_and_on_for_seventy_characters__"}

func genText(t *rapid.T, afterTag bool) string {
	n := rapid.IntRange(1, 8).Draw(t, "tn")
	if rapid.IntRange(0, 19).Draw(t, "longtext") == 0 {
		n = rapid.IntRange(8, 400).Draw(t, "longtn") // long literal text, many lines
	}
	var rs []rune
	for i := 0; i < n; i++ {
		var r rune
		switch rapid.IntRange(0, 7).Draw(t, "tk") {
		case 0:
			r = genRune(t)
		case 1:
			r = rapid.SampledFrom([]rune{'{', '}', '#', '/', '^', '!', '"', '\'', '\\', '\n', '\t', ' ', '中', '😀'}).Draw(t, "tspecial")
		default:
			r = rune(rapid.SampledFrom([]rune("abc xyz.,:-01")).Draw(t, "tplain"))
		}
		// no "{{" inside text
		if r == '{' && len(rs) > 0 && rs[len(rs)-1] == '{' {
			r = '('
		}
		rs = append(rs, r)
	}
	if rs[len(rs)-1] == '{' {
		rs[len(rs)-1] = ')'
	}
	if afterTag && rs[0] == '}' {
		rs[0] = ']'
	}
	return string(rs)
}

func genPads(t *rapid.T, n int) []string {
	out := make([]string, n)
	for i := range out {
		out[i] = rapid.SampledFrom([]string{"", "", "", " ", "  ", "\t", " \n "}).Draw(t, "pad")
	}
	return out
}

func genNodes(t *rapid.T, depth int, budget *int) []*mnode {
	n := rapid.IntRange(1, 4).Draw(t, "nn")
	if rapid.IntRange(0, 24).Draw(t, "manynodes") == 0 {
		n = rapid.IntRange(4, 24).Draw(t, "nnmany")
	}
	var out []*mnode
	for i := 0; i < n && *budget > 0; i++ {
		*budget--
		afterTag := len(out) > 0 && out[len(out)-1].Kind != "text"
		name := rapid.SampledFrom(c10Names).Draw(t, "name")
		k := rapid.IntRange(0, 9).Draw(t, "kind")
		switch {
		case k <= 2:
			if len(out) > 0 && out[len(out)-1].Kind == "text" {
				continue // adjacent texts would merge
			}
			out = append(out, &mnode{Kind: "text", Val: genText(t, true)})
			_ = afterTag
		case k <= 4:
			out = append(out, &mnode{Kind: "var", Val: name, Pad: genPads(t, 2)})
		case k == 5:
			out = append(out, &mnode{Kind: "esc", Val: name, Pad: genPads(t, 2)})
		case k == 6:
			body := rapid.SampledFrom([]string{"", " c ", " note: a b ", "x", " if unless ", " # / ^ "}).Draw(t, "cbody")
			sp := 0
			if rapid.IntRange(0, 3).Draw(t, "ctriple") == 0 {
				sp = 4
			}
			out = append(out, &mnode{Kind: "comment", Val: body, Spell: sp, Pad: genPads(t, 1)})
		default:
			kind := "sec"
			if rapid.Bool().Draw(t, "inv") {
				kind = "inv"
			}
			sp := rapid.IntRange(0, 15).Draw(t, "spell")
			nd := &mnode{Kind: kind, Val: name, Spell: sp, Pad: genPads(t, 7)}
			if depth > 0 && rapid.IntRange(0, 4).Draw(t, "empty") != 0 {
				nd.Kids = genNodes(t, depth-1, budget)
			}
			out = append(out, nd)
		}
	}
	return out
}

// fixEdges makes sure the template neither starts nor ends with blank characters (the parser trims the
// whole template; the check stays agnostic to that) and does not end in '{'.
func fixEdges(nodes []*mnode) []*mnode {
	if len(nodes) == 0 {
		return []*mnode{{Kind: "text", Val: "x"}}
	}
	if f := nodes[0]; f.Kind == "text" {
		rs := []rune(f.Val)
		if rs[0] <= ' ' || rs[0] == '}' {
			rs[0] = '.'
		}
		f.Val = string(rs)
	}
	if l := nodes[len(nodes)-1]; l.Kind == "text" {
		rs := []rune(l.Val)
		if rs[len(rs)-1] <= ' ' {
			rs[len(rs)-1] = '.'
		}
		l.Val = string(rs)
	}
	return nodes
}

func genMap(t *rapid.T) map[string]string {
	m := map[string]string{}
	for _, n := range c10Names {
		switch rapid.IntRange(0, 3).Draw(t, "presence") {
		case 0: // absent
		case 1:
			m[randomCase(t, n)] = ""
		default:
			m[randomCase(t, n)] = genValueText(t)
		}
	}
	return m
}

func randomCase(t *rapid.T, s string) string {
	var sb strings.Builder
	for _, r := range s {
		switch rapid.IntRange(0, 2).Draw(t, "uc") {
		case 0:
			sb.WriteString(strings.ToUpper(string(r)))
		case 1:
			if r >= 0x80 {
				sb.WriteString(strings.ToLower(string(r)))
			} else {
				sb.WriteRune(r)
			}
		default:
			sb.WriteRune(r)
		}
	}
	return sb.String()
}

func genValueText(t *rapid.T) string {
	n := rapid.IntRange(1, 8).Draw(t, "vn")
	if rapid.IntRange(0, 19).Draw(t, "longval") == 0 {
		n = rapid.IntRange(8, 300).Draw(t, "longvn")
	}
	var sb strings.Builder
	for i := 0; i < n; i++ {
		switch rapid.IntRange(0, 3).Draw(t, "vk") {
		case 0:
			sb.WriteRune(rapid.SampledFrom([]rune{'\\', '"', '/', '\b', '\f', '\n', '\r', '\t', '{', '}'}).Draw(t, "vesc"))
		case 1:
			sb.WriteRune(genRune(t))
		default:
			sb.WriteRune(rune(rapid.SampledFrom([]rune("abcXYZ 012")).Draw(t, "vplain")))
		}
	}
	return sb.String()
}

const c10Rule = "(a) template syntax trees (text, variables, escaped variables, comments, sections and inverted sections in every spelling, nesting up to 5) printed to source x variable maps (present / absent / empty, arbitrary Unicode values, random key letter case); oracle: reference renderer; (b) every lexeme sequence up to a bounded length over {{ }} {{{ }}} # / ^ ! a b if unless blank x: the reference lexer/grammar decides accept or reject, accepted templates are rendered against the reference too; non-trivial = a section or an escaped variable with a value that needs escaping, or a rejected sequence of >= 3 lexemes; distinct by (template, maps)"

func TestC10_Rapid(t *testing.T) {
	rec := evid.New("C10", "TestC10_Rapid", "C10", c10Rule)
	defer finish(t, rec)
	runRapid(t, pick(25000, 200000), 10, func(rt *rapid.T) {
		budget := rapid.SampledFrom([]int{2, 4, 6, 10, 16, 30}).Draw(rt, "budget")
		tree := fixEdges(genNodes(rt, rapid.IntRange(0, 5).Draw(rt, "depth"), &budget))
		var sb strings.Builder
		mPrint(tree, &sb)
		c := c10Case{Tree: tree, Template: sb.String()}
		for i := 0; i < 3; i++ {
			c.Maps = append(c.Maps, genMap(rt))
		}
		c.Maps = append(c.Maps, map[string]string{}) // an explicit, empty, non-nil map
		nt := hasKind(tree, "sec") || hasKind(tree, "inv") || (hasKind(tree, "esc") && mEscapeDiffers(c.Maps[0]))
		labels := []string{fmt.Sprintf("nesting:%d", mDepth(tree))}
		for _, k := range []string{"text", "var", "esc", "comment", "sec", "inv"} {
			if hasKind(tree, k) {
				labels = append(labels, "kind:"+k)
			}
		}
		rec.Case(c.Template+"|"+sortedMap(c.Maps[0])+sortedMap(c.Maps[1]), nt, func() interface{} {
			return map[string]interface{}{"template": c.Template, "maps": []string{sortedMap(c.Maps[0]), sortedMap(c.Maps[1])}}
		}, labels...)
		if f := checkC10(c); f != nil {
			if rec.Fail(f, c) {
				rt.Fatalf("%v", f)
			}
		}
	})
	requireLabels(t, rec, "kind:comment", "kind:esc", "kind:sec", "kind:inv", "nesting:2", "nesting:3")
}

// ---------------------------------------------------------------------------------------
// reference lexer / grammar for the accept-reject decision

type mtag struct{ op, kw, name, open string }

func mWordStart(r rune) bool {
	return (r >= 'a' && r <= 'z') || (r >= 'A' && r <= 'Z') || (r >= '0' && r <= '9') || r == '_' || (r >= 0xc0 && r <= 0xfffe)
}
func mWordChar(r rune) bool { return mWordStart(r) || r == '-' }

// mLex returns text / tag items; bad != "" when the template is malformed; dc = a don't-care class.
func mLex(src string) (items []interface{}, bad string, dc bool) {
	rs := []rune(strings.Trim(src, " \t\r\n"))
	i := 0
	for i < len(rs) {
		j := i
		for j < len(rs) && !(rs[j] == '{' && j+1 < len(rs) && rs[j+1] == '{') {
			j++
		}
		if j > i {
			items = append(items, string(rs[i:j]))
		}
		i = j
		if i >= len(rs) {
			break
		}
		open := "{{"
		if i+2 < len(rs) && rs[i+2] == '{' {
			open = "{{{"
		}
		i += len(open)
		var toks []string
		closed := ""
		for i < len(rs) && closed == "" {
			r := rs[i]
			switch {
			case r <= ' ':
				i++
			case mWordStart(r):
				k := i
				for k < len(rs) && mWordChar(rs[k]) {
					k++
				}
				toks = append(toks, "w:"+string(rs[i:k]))
				i = k
			case r == '}' && i+1 < len(rs) && rs[i+1] == '}':
				if i+2 < len(rs) && rs[i+2] == '}' {
					closed = "}}}"
					i += 3
				} else {
					closed = "}}"
					i += 2
				}
			case r == '{' && i+1 < len(rs) && rs[i+1] == '{':
				if len(toks) > 0 && toks[0] == "s:!" {
					return nil, "", true // "{{" inside a comment: what a comment may contain is not stated
				}
				return nil, "unclosed tag", false // a tag that meets the next opening braces before its own closing ones was never closed
			case r == '"' || r == '\'':
				return nil, "", true // quoted text inside a tag
			default:
				toks = append(toks, "s:"+string(r))
				i++
			}
		}
		if closed == "" {
			return nil, "unclosed tag", false
		}
		tg := mtag{open: open}
		k := 0
		if k < len(toks) && toks[k] == "s:!" {
			if (open == "{{") != (closed == "}}") {
				return nil, "mismatched braces", false
			}
			items = append(items, mtag{op: "!"})
			continue
		}
		if k < len(toks) && (toks[k] == "s:#" || toks[k] == "s:/" || toks[k] == "s:^") {
			tg.op = toks[k][2:]
			k++
		}
		if tg.op != "" && k < len(toks) && (toks[k] == "w:if" || toks[k] == "w:unless") {
			tg.kw = toks[k][2:]
			k++
		}
		if k < len(toks) && strings.HasPrefix(toks[k], "w:") {
			tg.name = toks[k][2:]
			k++
		}
		if k != len(toks) {
			return nil, "junk in tag", false
		}
		if (open == "{{") != (closed == "}}") {
			return nil, "mismatched braces", false
		}
		if tg.name == "" && tg.kw != "" && tg.op != "/" {
			tg.name, tg.kw, dc = tg.kw, "", true // if / unless used as a name
		}
		if tg.name == "" && !(tg.op == "/" && tg.kw != "") {
			return nil, "empty tag", false
		}
		if tg.op == "^" && tg.kw != "" {
			return nil, "", true // {{^if a}}: a spelling the statement does not list
		}
		if tg.op == "" && (tg.name == "if" || tg.name == "unless") {
			dc = true
		}
		items = append(items, tg)
	}
	return items, "", dc
}

// mParse builds the tree; e != "" when a section is unclosed, unopened or mismatched.
func mParse(items []interface{}) (nodes []*mnode, e string, dc bool) {
	type frame struct {
		tag   mtag
		nodes []*mnode
	}
	stack := []*frame{{}}
	for _, it := range items {
		top := stack[len(stack)-1]
		switch v := it.(type) {
		case string:
			top.nodes = append(top.nodes, &mnode{Kind: "text", Val: v})
		case mtag:
			switch v.op {
			case "!":
			case "":
				k := "var"
				if v.open == "{{{" {
					k = "esc"
				}
				top.nodes = append(top.nodes, &mnode{Kind: k, Val: v.name})
			case "#", "^":
				stack = append(stack, &frame{tag: v})
			case "/":
				if len(stack) == 1 {
					return nil, "unopened section", dc
				}
				if v.name != "" && v.name != top.tag.name {
					if strings.EqualFold(v.name, top.tag.name) {
						dc = true // closer differs from the opener in letter case only
					}
					return nil, "mismatched section", dc
				}
				inv := top.tag.op == "^" || top.tag.kw == "unless"
				if v.name == "" {
					want := "if"
					if inv {
						want = "unless"
					}
					if v.kw != want {
						dc = true // closed by the other kind's keyword
					}
				} else if v.kw != "" {
					dc = true // keyword and name in one closer
				}
				kind := "sec"
				if inv {
					kind = "inv"
				}
				stack = stack[:len(stack)-1]
				parent := stack[len(stack)-1]
				parent.nodes = append(parent.nodes, &mnode{Kind: kind, Val: top.tag.name, Kids: top.nodes})
			}
		}
	}
	if len(stack) != 1 {
		return nil, "unclosed section", dc
	}
	return stack[0].nodes, "", dc
}

type c10SeqCase struct {
	Template string `json:"template"`
}

var c10SeqMaps = []map[string]string{{}, {"a": "1", "B": "x/\"y"}, {"A": "", "b": "q"}, {"if": "i", "unless": ""}}

func checkC10Seq(c c10SeqCase) *evid.Fail {
	src := c.Template
	if strings.Trim(src, " \t\r\n") == "" {
		return nil // an empty template is outside the statement
	}
	items, bad, dc := mLex(src)
	var tree []*mnode
	ok := false
	if !dc && bad == "" {
		var e string
		tree, e, dc = mParse(items)
		ok = e == ""
		bad = e
	}
	t := mustache.NewMustacheTemplate()
	var err error
	if g := guard(func() { err = t.SetTemplate(src) }); g != nil {
		g.Msg = fmt.Sprintf("SetTemplate(%q): %s", src, g.Msg)
		return g // a panic is a failure in every class, the don't-care ones included
	}
	if dc {
		return nil
	}
	// the same text submitted again to the same object gets the same verdict
	var err2 error
	if g := guard(func() { err2 = t.SetTemplate(src) }); g != nil {
		g.Msg = fmt.Sprintf("SetTemplate(%q) a second time: %s", src, g.Msg)
		return g
	}
	if (err == nil) != (err2 == nil) {
		return evid.F("resubmission-differs", "template %q: the first SetTemplate gives %v, the second on the same object %v", src, err, err2)
	}
	if ok && err != nil {
		return evid.F("well-formed-rejected", "template %q is well-formed but was rejected: %v", src, err)
	}
	if !ok && err == nil {
		return evid.F("malformed-accepted:"+strings.ReplaceAll(bad, " ", "-"), "template %q is malformed (%s) but was accepted", src, bad)
	}
	if ok {
		for _, m := range c10SeqMaps {
			var want strings.Builder
			mRender(tree, m, &want)
			var got string
			var rerr error
			if g := guard(func() { got, rerr = t.EvaluateWithVariables(m) }); g != nil {
				return g
			}
			if rerr != nil || got != want.String() {
				return evid.F("render-mismatch", "template %q with %s rendered %q (%v), the reference semantics give %q", src, sortedMap(m), got, rerr, want.String())
			}
		}
	}
	return nil
}

func init() { regReplay("C10.seq", checkC10Seq) }

func TestC10_ExhaustiveSequences(t *testing.T) {
	rec := evid.New("C10", "TestC10_ExhaustiveSequences", "C10.seq", c10Rule)
	rec.Exhaustive = true
	defer finish(t, rec)
	lex := []string{"{{", "}}", "{{{", "}}}", "#", "/", "^", "!", "a", "b", "if", "unless", " ", "."}
	maxLen := pick(5, 6)
	rec.Bounds = fmt.Sprintf("every lexeme sequence of length 1..%d over {{ }} {{{ }}} # / ^ ! a b if unless blank '.' (as one string)", maxLen)
	enumStrings(lex, maxLen, false, func(parts []string) {
		src := strings.Join(parts, "")
		items, bad, dc := mLex(src)
		ok := false
		if !dc && bad == "" {
			var e string
			_, e, dc = mParse(items)
			ok = e == ""
		}
		lab := "rejected"
		switch {
		case dc:
			lab = "dont-care"
		case ok:
			lab = "accepted"
		}
		nt := !dc && ((ok && strings.Contains(src, "{{")) || (!ok && len(parts) >= 3))
		rec.Case(src, nt, func() interface{} { return src }, lab)
		if f := checkC10Seq(c10SeqCase{src}); f != nil {
			rec.Fail(f, c10SeqCase{src})
		}
	})
	requireLabels(t, rec, "accepted", "rejected", "dont-care")
}

// TestC10_RapidMalformed: well-formed generated templates are damaged at tag level (a closer gets another
// name or a keyword, a tag is dropped or duplicated, brace counts are changed, a section is crossed with its
// neighbour) and handed to the reference lexer / grammar, which decides accept or reject (checkC10Seq).
var c10TagRe = regexp.MustCompile(`\{\{\{?[^{}]*\}\}\}?`)

// c10Damage applies 1-2 tag-level mutations to a template source.
func c10Damage(rt *rapid.T, src string) string {
	tagRe := c10TagRe
	for m := rapid.IntRange(1, 2).Draw(rt, "mutations"); m > 0; m-- {
		locs := tagRe.FindAllStringIndex(src, -1)
		if len(locs) == 0 {
			break
		}
		l := locs[rapid.IntRange(0, len(locs)-1).Draw(rt, "tag")]
		tag := src[l[0]:l[1]]
		var repl string
		switch rapid.IntRange(0, 6).Draw(rt, "mut") {
		case 0: // another name in this tag
			name := rapid.SampledFrom(c10Names).Draw(rt, "newname")
			repl = regexp.MustCompile(`[^\s{}#/^!]+(\s*\}\}\}?)$`).ReplaceAllString(tag, name+"$1")
		case 1: // a keyword in front of the name of a closer / opener
			kw := rapid.SampledFrom([]string{"if ", "unless "}).Draw(rt, "kw")
			repl = regexp.MustCompile(`([#/^])\s*`).ReplaceAllString(tag, "${1}"+kw)
		case 2: // tag dropped
			repl = ""
		case 3: // tag duplicated
			repl = tag + tag
		case 4: // one more / one less closing brace
			if strings.HasSuffix(tag, "}}}") {
				repl = tag[:len(tag)-1]
			} else {
				repl = tag + "}"
			}
		case 5: // one more opening brace
			repl = "{" + tag
		default: // swap with the next tag
			if len(locs) >= 2 {
				o := locs[rapid.IntRange(0, len(locs)-1).Draw(rt, "other")]
				if o[0] > l[1] {
					src = src[:l[0]] + src[o[0]:o[1]] + src[l[1]:o[0]] + tag + src[o[1]:]
				}
			}
			continue
		}
		src = src[:l[0]] + repl + src[l[1]:]
	}
	return src
}

func TestC10_RapidMalformed(t *testing.T) {
	rec := evid.New("C10", "TestC10_RapidMalformed", "C10.seq", c10Rule+"; rapid: generated well-formed templates with 1-2 tag-level mutations (closer renamed / given a keyword, tag dropped or duplicated, brace count changed, closers swapped), decided by the reference lexer and grammar")
	defer finish(t, rec)
	runRapid(t, pick(20000, 150000), 1010, func(rt *rapid.T) {
		budget := rapid.SampledFrom([]int{3, 5, 8, 12}).Draw(rt, "budget")
		tree := fixEdges(genNodes(rt, rapid.IntRange(1, 4).Draw(rt, "depth"), &budget))
		var sb strings.Builder
		mPrint(tree, &sb)
		src := sb.String()
		src = c10Damage(rt, src)
		items, bad, dc := mLex(src)
		ok := false
		if !dc && bad == "" {
			var e string
			_, e, dc = mParse(items)
			ok = e == ""
		}
		lab := "rejected"
		switch {
		case dc:
			lab = "dont-care"
		case ok:
			lab = "accepted"
		}
		c := c10SeqCase{src}
		rec.Case(src, !dc, func() interface{} { return c }, lab)
		if f := checkC10Seq(c); f != nil && rec.Fail(f, c) {
			rt.Fatalf("%v", f)
		}
	})
	requireLabels(t, rec, "accepted", "rejected")
}
