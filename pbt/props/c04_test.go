package props

import (
	"fmt"
	"strconv"
	"strings"
	"testing"

	"github.com/pip-services3-gox/pip-services3-expressions-gox/csv"
	rio "github.com/pip-services3-gox/pip-services3-expressions-gox/io"
	"github.com/pip-services3-gox/pip-services3-expressions-gox/tokenizers"
	"pgregory.net/rapid"
	"verif/pbt/evid"
)

// C04 — tokenization is lossless: with every option off, token values concatenate to the input.

type c04Case struct {
	Tok   string `json:"tok"`
	Input string `json:"input"`
}

// one representative per state-table class and per look-ahead trigger
var c04Alphabet = []string{"a", "e", "1", ".", "-", "/", "*", "'", "\"", "<", ">", "=", "!", "{", "}", "#", ",", " ", "\r", "\n", "é", "中", "😀", "\\"}

const c04Triggers = "-./<>!{"

func c04NonTrivial(input string) (bool, bool) {
	rs := []rune(input)
	any, atEnd := false, false
	for i, r := range rs {
		trig := strings.ContainsRune(c04Triggers, r)
		if !trig && (r == 'e' || r == 'E') && i > 0 && rs[i-1] >= '0' && rs[i-1] <= '9' {
			trig = true
		}
		if trig {
			any = true
			if i == len(rs)-1 {
				atEnd = true
			}
		}
	}
	return any, atEnd
}

func checkC04(c c04Case) *evid.Fail { return checkC04With(newTokenizer(c.Tok), c) }

// checkC04Pooled runs the oracle on a pooled (reused) instance — constructing a tokenizer costs more
// than tokenizing a short string — and re-runs any failure on a fresh instance, which is what the
// replay uses. A failure seen only on the reused instance is history dependence (C05's subject); it is
// still reported, under its own signature.
func checkC04Pooled(c c04Case) *evid.Fail {
	t := getTok(c.Tok)
	f := checkC04With(t, c)
	putTok(c.Tok, t)
	if f == nil {
		return nil
	}
	if ff := checkC04(c); ff != nil {
		return ff
	}
	return evid.F("reused-instance-only:"+f.Sig, "fails only on a reused tokenizer instance (history dependence): %s", f.Msg)
}

func checkC04With(t tokenizers.ITokenizer, c c04Case) *evid.Fail {
	// the instance has just been used on the very same text with options on (an option set and a setter order derived
	// from the text); the caller then switches every option off: what follows is the option-free stream
	sum := len(c.Input)
	for i := 0; i < len(c.Input); i++ {
		sum = sum*31 + int(c.Input[i])
	}
	if sum < 0 {
		sum = -sum
	}
	if sum%3 != 0 {
		if g := guard(func() {
			setOptionsRotated(t, 1+sum%127, (sum/127)%7)
			if sum%2 == 0 {
				t.TokenizeBuffer(c.Input)
			} else {
				t.TokenizeStreamToStrings(newBudgetScanner(c.Input))
			}
			setOptionsRotated(t, 0, (sum/889)%7)
		}); g != nil {
			return nil // a failure with options on is C15's / C03's subject
		}
	}
	setOptions(t, 0)
	toks, f := tokenizeCapped(t, c.Input, 0)
	if f != nil {
		return f
	}
	want := string([]rune(c.Input))
	var sb strings.Builder
	for _, tk := range toks {
		sb.WriteString(tk.V)
	}
	if len(toks) == 0 {
		return evid.F("no-eof-token", "no tokens at all for %q", c.Input)
	}
	last := toks[len(toks)-1]
	if last.T != tokenizers.Eof || last.V != "" {
		return evid.F("last-not-eof", "last token of %q is %s", c.Input, last)
	}
	for i, tk := range toks[:len(toks)-1] {
		if tk.T == tokenizers.Eof {
			return evid.F("eof-in-middle", "token %d of %q is Eof: %s", i, c.Input, tksString(toks))
		}
		if tk.V == "" {
			return evid.F("empty-token", "token %d of %q is empty: %s", i, c.Input, tksString(toks))
		}
	}
	if got := sb.String(); got != want {
		sig := "concat-mismatch"
		if strings.ContainsRune(got, 0xFFFD) && !strings.ContainsRune(want, 0xFFFD) {
			sig = "concat-mismatch:invented-U+FFFD"
		} else if len([]rune(got)) < len([]rune(want)) {
			sig = "concat-mismatch:dropped"
		} else if len([]rune(got)) > len([]rune(want)) {
			sig = "concat-mismatch:invented"
		}
		return evid.F(sig, "%s tokenizer: concat %q != input %q; tokens %s", c.Tok, got, want, tksString(toks))
	}
	// TokenizeBuffer (the API named by the property) must agree with the manual loop
	var buf []tk
	if f := guard(func() {
		for _, x := range t.TokenizeBuffer(c.Input) {
			buf = append(buf, tk{x.Type(), x.Value(), x.Line(), x.Column()})
		}
	}); f != nil {
		return f
	}
	if tksString(buf) != tksString(toks) {
		return evid.F("tokenizebuffer-differs", "TokenizeBuffer %s vs NextToken loop %s", tksString(buf), tksString(toks))
	}
	// the presence of a next token queried twice before every fetch: the same tokens, the end-of-input marker included
	if sum%4 == 1 || len(c.Input) <= 3 {
		asked, f := tokenizeCapped(t, c.Input, 2)
		if f != nil {
			return f
		}
		if tksString(asked) != tksString(toks) {
			return evid.F("has-next-queries-change-tokens", "input %q: plain NextToken loop %s ; with two HasNextToken queries before every fetch %s", c.Input, tksString(toks), tksString(asked))
		}
	}
	// a CSV tokenizer whose caller sets the very same separators and quote symbols again in the middle of the text,
	// with a look-ahead pending: nothing of the text is lost over it
	if ct, ok := t.(*csv.CsvTokenizer); ok && (sum%4 == 2 || len(c.Input) <= 3) {
		var again []tk
		if g := guard(func() {
			ct.SetReader(rio.NewStringScanner(c.Input))
			for n := 0; n <= len([]rune(c.Input))+2; n++ {
				if n == 1+sum%3 {
					ct.HasNextToken()
					ct.SetFieldSeparators(append([]rune{}, ct.FieldSeparators()...))
					ct.SetQuoteSymbols(append([]rune{}, ct.QuoteSymbols()...))
				}
				x := ct.NextToken()
				if x == nil {
					break
				}
				again = append(again, tk{x.Type(), x.Value(), x.Line(), x.Column()})
			}
		}); g != nil {
			return g
		}
		if tksString(again) != tksString(toks) {
			return evid.F("concat-mismatch:reconfigured-mid-text", "input %q: NextToken loop %s ; with the same separators and quote symbols set again after token %d (a look-ahead pending) %s", c.Input, tksString(toks), 1+sum%3, tksString(again))
		}
	}
	// the remaining entry points (for every short input and a deterministic eighth of the longer ones)
	if n := len(c.Input); n > 6 && (n+int(c.Input[0])+int(c.Input[n-1]))%8 != 0 {
		return nil
	}
	var strs, strs2 []string
	var stream, rewound []tk
	if f := guard(func() {
		// the caller's own scanner object: handed over, one token peeked, rewound by the caller, handed over again
		sc := rio.NewStringScanner(c.Input)
		t.SetReader(sc)
		t.HasNextToken()
		sc.Reset()
		for _, x := range t.TokenizeStream(sc) {
			rewound = append(rewound, tk{x.Type(), x.Value(), x.Line(), x.Column()})
		}
		strs = t.TokenizeBufferToStrings(c.Input)
		strs2 = t.TokenizeStreamToStrings(rio.NewStringScanner(c.Input))
		for _, x := range t.TokenizeStream(rio.NewStringScanner(c.Input)) {
			stream = append(stream, tk{x.Type(), x.Value(), x.Line(), x.Column()})
		}
	}); f != nil {
		return f
	}
	if strings.Join(strs, "\x00") != sb.String()+"" && strings.Join(strs, "") != want {
		return evid.F("tokenizebuffertostrings-differs", "TokenizeBufferToStrings(%q) = %q", c.Input, strs)
	}
	if tksString(rewound) != tksString(toks) {
		return evid.F("entry-points-differ:rewound-scanner", "input %q: NextToken loop %s ; the same scanner object rewound after a peek and tokenized again %s", c.Input, tksString(toks), tksString(rewound))
	}
	if len(strs) != len(toks) || len(strs2) != len(toks) || tksString(stream) != tksString(toks) {
		return evid.F("entry-points-differ", "input %q: NextToken loop %s ; TokenizeStream %s ; ToStrings %q / %q", c.Input, tksString(toks), tksString(stream), strs, strs2)
	}
	for i := range toks {
		if strs[i] != toks[i].V || strs2[i] != toks[i].V {
			return evid.F("entry-points-differ", "input %q: token %d is %q, the string entry points give %q / %q", c.Input, i, toks[i].V, strs[i], strs2[i])
		}
	}
	return nil
}

func init() { regReplay("C04", checkC04) }

const c04Rule = "input string x tokenizer with all 7 options off; non-trivial = input contains a push-back trigger (one of - . / < > ! { or a digit followed by e/E); distinct by (tokenizer,input)"

func c04Record(rec *evid.Recorder, c c04Case) bool {
	nt, atEnd := c04NonTrivial(c.Input)
	lab := ""
	if atEnd {
		lab = "trigger-at-end"
	}
	rec.Case(c.Tok+"\x00"+c.Input, nt, func() interface{} { return c }, "tok:"+c.Tok, lab)
	if f := checkC04Pooled(c); f != nil {
		return rec.Fail(f, c)
	}
	return false
}

// TestC04_ExhaustiveCustom: short strings over the characters that matter for the user-configured tokenizers.
func TestC04_ExhaustiveCustom(t *testing.T) {
	rec := evid.New("C04", "TestC04_ExhaustiveCustom", "C04", c04Rule)
	rec.Exhaustive = true
	rec.DupFree = true
	defer finish(t, rec)
	alpha := []string{"a", ".", "=", ":", "~", "-", ">", "<", "≠", "/", "*", "\n", " ", "。", "，", "«", "»", "'", "1"}
	maxLen := pick(4, 5)
	rec.Bounds = "all strings of length 0.." + itoa(maxLen) + " over " + strings.Join(alpha, "") + " x the 4 user-configured tokenizers (extra symbols with unregistered prefixes, C++ comments in the expression tokenizer, re-mapped blank / word ranges, non-Latin CSV separators and quotes)"
	enumStrings(alpha, maxLen, true, func(parts []string) {
		in := runesOf(parts)
		for _, k := range tokKindsExt[4:] {
			c04Record(rec, c04Case{k, in})
		}
	})
}

func TestC04_Exhaustive(t *testing.T) {
	maxLen := pick(4, 5)
	rec := evid.New("C04", "TestC04_Exhaustive", "C04", c04Rule)
	rec.Exhaustive = true
	rec.DupFree = true
	rec.Bounds = "all strings of length 0.." + itoa(maxLen) + " over the " + itoa(len(c04Alphabet)) + "-symbol class alphabet " + strings.Join(c04Alphabet, "") + " x 4 tokenizers"
	enumStrings(c04Alphabet, maxLen, true, func(parts []string) {
		in := runesOf(parts)
		for _, k := range tokKinds {
			c04Record(rec, c04Case{k, in})
		}
	})
	requireLabels(t, rec, "trigger-at-end", "tok:generic", "tok:expression", "tok:csv", "tok:mustache")
	finish(t, rec)
}

// genTokInput draws an input string of up to maxLen symbols, weighted towards the alphabet of
// significant characters, with a trigger forced at the end in a third of the cases.
// the random part also writes whole lexemes: keywords and section words in every letter case, identifiers, numbers
// in every notation, multi-character symbols, comment and tag delimiters (a state may normalise what it recognises)
var c04RapidAlphabet = append(append([]string{}, c04Alphabet...), "and", "And", "AND", "oR", "not", "Not", "is", "Is", "null", "Null", "like", "LiKe", "in", "In", "xor", "true", "True", "false",
	"if", "If", "unless", "abc", "x_1", "Zürich", "ǅ", "ſ", "ı", "1e5", "2.5E-3", "1E+2", "0x1F", "007", "<=", "<>", "<<", "!=", ">=", ">>", "{{", "}}", "{{{", "}}}", "/*", "*/", "//", "''", "\"\"", "\r\n", "\n\r", ";", "|")

func genTokInput(t *rapid.T, alphabet []string, maxLen int) string {
	n := rapid.IntRange(0, maxLen).Draw(t, "len")
	if rapid.IntRange(0, 15).Draw(t, "long") == 0 {
		n = rapid.IntRange(maxLen, 20*maxLen).Draw(t, "longlen") // long inputs: offsets past 256, many lines
	}
	var sb strings.Builder
	if rapid.IntRange(0, 99).Draw(t, "huge") == 0 {
		// several KB of mostly multi-byte characters: buffer-size thresholds (4 KB, 8 KB) inside the input
		unit := rapid.SampledFrom([]string{"é", "中", "😀", "aé", "中\n", "'中'", "\"é\","}).Draw(t, "unit")
		sb.WriteString(strings.Repeat("x", rapid.IntRange(0, 3).Draw(t, "shift")))
		sb.WriteString(strings.Repeat(unit, rapid.IntRange(1400, 3200).Draw(t, "reps")))
	}
	if rapid.IntRange(0, 19).Draw(t, "prefix") == 0 {
		sb.WriteRune(rapid.SampledFrom(unicodeSpecials).Draw(t, "first")) // a special character at offset 0 (BOM, NBSP, ...)
	}
	for i := 0; i < n; i++ {
		switch rapid.IntRange(0, 11).Draw(t, "k") {
		case 0:
			sb.WriteRune(genRune(t))
		case 1:
			if rapid.IntRange(0, 3).Draw(t, "runp") == 0 {
				// a long run of one character class (chunk sizes of 16, 32, 64, 256 inside one token)
				unit := rapid.SampledFrom([]string{" ", "\t", "\n", " \r\n", "a", "1", "-", ".", "<", "=", "'x", "é", "#"}).Draw(t, "rununit")
				sb.WriteString(strings.Repeat(unit, rapid.IntRange(15, 300).Draw(t, "runlen")))
			} else {
				sb.WriteString(rapid.SampledFrom(alphabet).Draw(t, "sym"))
			}
		default:
			sb.WriteString(rapid.SampledFrom(alphabet).Draw(t, "sym"))
		}
	}
	if rapid.IntRange(0, 2).Draw(t, "endtrig") == 0 {
		sb.WriteString(rapid.SampledFrom([]string{"-", ".", "/", "<", ">", "!", "{", "1e", "1e+", "1.", "a.", "a /", "{{", "}", "'", "\"", "*", "/*", "//", "#", "<", "\r", "-."}).Draw(t, "end"))
	}
	return sb.String()
}

// genRune draws a valid Unicode scalar value across all UTF-8 lengths and the class boundaries.
// aliasRunes: code points whose low byte (or low 16 bits) equals a significant character - LF, CR, quotes,
// '/', '-', '.', blank, '{', digits - for narrowing / masking slips in character tests.
var aliasRunes = []rune{0x010a, 0x010d, 0x4e0a, 0x4e0d, 0x300d, 0x200d, 0xff0d, 0x2022, 0x2027, 0x202f, 0x212d, 0x212e, 0x2120, 0x217b, 0x2130, 0x0120, 0x0127,
	0x1000a, 0x1000d, 0x1f60a, 0x1f60d, 0x10022, 0x10027, 0x1002f, 0x1002d, 0x10020, 0x10061, 0x10041, 0x1007b, 0x10030, 0x2000a, 0x100061}

// unicodeSpecials: characters that standard-library helpers (TrimSpace, IsSpace, IsDigit, IsLetter, ToUpper /
// ToLower / EqualFold, BOM handling, utf8.RuneError) treat specially although the tokenizers' tables do not.
var unicodeSpecials = []rune{0xfeff, 0x2028, 0x2029, 0x0085, 0x00a0, 0x3000, 0x1680, 0x200b, 0xfffd, 0xfffc,
	0x0663, 0x0967, 0x0e53, 0xff10, 0xff19, 0x00b2, 0x2460, 0x0130, 0x0131, 0x017f, 0x212a, 0x00df, 0x01c5, 0x03c2, 0x1e9e, 0x00b5, 0x2126, 0x00aa}

func genRune(t *rapid.T) rune {
	switch rapid.IntRange(0, 11).Draw(t, "alias") {
	case 0:
		return rapid.SampledFrom(aliasRunes).Draw(t, "aliasrune")
	case 1:
		return rapid.SampledFrom(unicodeSpecials).Draw(t, "special")
	}
	switch rapid.IntRange(0, 5).Draw(t, "rk") {
	case 0:
		return rune(rapid.IntRange(0, 0x7f).Draw(t, "ascii"))
	case 1:
		return rune(rapid.IntRange(0x80, 0xff).Draw(t, "latin1"))
	case 2:
		return rapid.SampledFrom([]rune{0, 0x1f, 0x20, 0x7f, 0xbf, 0xc0, 0xff, 0x100, 0x101, 0x2016, 0xd7ff, 0xe000, 0xfffd, 0xfffe, 0xffff, 0x10000, 0x10ffff}).Draw(t, "boundary")
	case 3:
		r := rune(rapid.IntRange(0x100, 0xffff).Draw(t, "bmp"))
		if r >= 0xd800 && r <= 0xdfff {
			r = 0x4e2d
		}
		return r
	case 4:
		return rune(rapid.IntRange(0x10000, 0x10ffff).Draw(t, "astral"))
	default:
		return rapid.SampledFrom([]rune{'é', '中', '😀', 'ß', 'Ω', '\t', '\r', '\n'}).Draw(t, "named")
	}
}

func TestC04_Rapid(t *testing.T) {
	rec := evid.New("C04", "TestC04_Rapid", "C04", c04Rule+"; rapid strings of up to 64 symbols")
	defer finish(t, rec)
	runRapid(t, pick(30000, 250000), 4, func(rt *rapid.T) {
		c := c04Case{rapid.SampledFrom(tokKindsExt).Draw(rt, "tok"), genTokInput(rt, c04RapidAlphabet, 64)}
		if c04Record(rec, c) {
			rt.Fatalf("C04 violated for %+v", c)
		}
	})
}

func FuzzC04(f *testing.F) {
	for _, s := range fuzzSeedStrings {
		f.Add(s, uint8(0))
	}
	f.Fuzz(func(t *testing.T, s string, k uint8) {
		if len(s) > 1<<16 {
			t.Skip()
		}
		c := c04Case{tokKindsExt[int(k)%len(tokKindsExt)], string([]rune(s))}
		if fl := checkC04(c); fl != nil {
			if _, known := evid.IsKnown("C04", fl.Sig); !known {
				t.Fatalf("VIOLATION-SIG %s :: %s :: %s", fl.Sig, fl.Msg, jsonStr(c))
			}
		}
	})
}

var fuzzSeedStrings = []string{
	"", "a", "1.5e+10", "-", ".", "/", "a /", "1-", "a.", "'é'", "\"\"", "1/0", "{{#a}}x", "1<<-1", "'abc'[9]",
	"A'xyz'Ebf\"abc\"Z", "123.456 'abc'  \"def\" AND = <> <=", "Hello, {{{NAME}}}{{ #if ESCLAMATION }}!{{/if}}{{{^ESCLAMATION}}}.{{{/ESCLAMATION}}}",
	"\"1\",\"2\"\r\n\"a\"\"b\",中文\n", "/* c */ 1 + 2", "x // c", "# c\n1", "1e", "1e-", "😀", "\r\n\n\r", "a<=b<>c<<d", "{{{", "}}}",
}

func itoa(n int) string { return strconv.Itoa(n) }

// ---------------------------------------------------------------------------------------
// Sizes. Long inputs and long runs of one class around the powers of two up to 128 K (buffers, chunks and blocks live
// there): a multi-byte character straddling the byte offset B at every split, and single lexemes - a word, a blank
// run, a number, a quoted string, a comment - of B-1, B, B+1 characters. The case is described, not spelled out
// (the replay file and the evidence stay small); the oracle is the lossless check itself.

type c04BigCase struct {
	Tok   string `json:"tok"`
	Shape string `json:"shape"` // straddle | word | blank | digits | quoted | comment | nonlatin
	N     int    `json:"n"`     // straddle: the byte offset the character lies across; otherwise the length of the run
	Split int    `json:"split"` // straddle: how many bytes of the character lie in front of the offset
	Char  string `json:"char"`  // straddle: the character
}

func (c c04BigCase) input() string {
	switch c.Shape {
	case "straddle":
		fill := c.N - c.Split
		var sb strings.Builder
		for sb.Len()+4 <= fill {
			sb.WriteString("ab, ")
		}
		for sb.Len() < fill {
			sb.WriteByte('x')
		}
		sb.WriteString(c.Char)
		sb.WriteString(" tail é,1")
		return sb.String()
	case "word":
		return "a " + strings.Repeat("w", c.N) + " b"
	case "nonlatin":
		return "a," + strings.Repeat("é", c.N) + ",中"
	case "blank":
		return "a" + strings.Repeat(" ", c.N) + "b"
	case "digits":
		return "x " + strings.Repeat("7", c.N) + " y"
	case "quoted":
		return "x '" + strings.Repeat("q", c.N) + "' y"
	case "comment":
		return "x /*" + strings.Repeat("c", c.N) + "*/ # " + strings.Repeat("d", c.N) + "\ny"
	}
	return ""
}

func checkC04Big(c c04BigCase) *evid.Fail {
	f := checkC04(c04Case{c.Tok, c.input()})
	if f != nil && len(f.Msg) > 600 {
		f.Msg = f.Msg[:300] + " ... " + f.Msg[len(f.Msg)-300:]
	}
	if f != nil {
		f.Msg = fmt.Sprintf("%s tokenizer, %s of size %d (split %d, %q): %s", c.Tok, c.Shape, c.N, c.Split, c.Char, f.Msg)
	}
	return f
}

func init() { regReplay("C04.big", checkC04Big) }

func TestC04_EnumSizes(t *testing.T) {
	rec := evid.New("C04", "TestC04_EnumSizes", "C04.big", c04Rule+"; sizes: a 2-, 3- and 4-byte character straddling the byte offsets 2^8 .. 2^17 at every split, and single lexemes (word, non-Latin word, blank run, digits, quoted string, comments) of 2^k-1, 2^k, 2^k+1 characters up to 2^16 / 2^17 (and 1500, 3000), x 4 tokenizers")
	rec.Exhaustive = true
	rec.DupFree = true
	defer finish(t, rec)
	var cases []c04BigCase
	top := pick(16, 17)
	for k := 8; k <= top; k++ {
		for _, ch := range []string{"é", "中", "😀"} {
			for split := 1; split < len(ch); split++ {
				for _, tok := range tokKinds {
					cases = append(cases, c04BigCase{tok, "straddle", 1 << uint(k), split, ch})
				}
			}
		}
	}
	for _, shape := range []string{"word", "nonlatin", "blank", "digits", "quoted", "comment"} {
		sizes := []int{1500, 3000}
		for k := 8; k <= top; k++ {
			sizes = append(sizes, 1<<uint(k)-1, 1<<uint(k), 1<<uint(k)+1)
		}
		for _, n := range sizes {
			for _, tok := range tokKinds {
				cases = append(cases, c04BigCase{Tok: tok, Shape: shape, N: n})
			}
		}
	}
	rec.Bounds = fmt.Sprintf("%d described inputs", len(cases))
	parallelFor(len(cases), func(i int) {
		c := cases[i]
		rec.Case(jsonStr(c), true, func() interface{} { return c }, "shape:"+c.Shape)
		if f := checkC04Big(c); f != nil {
			rec.Fail(f, c)
		}
	})
}
