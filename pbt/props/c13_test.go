package props

import (
	"fmt"
	"strings"
	"testing"

	"github.com/pip-services3-gox/pip-services3-expressions-gox/tokenizers"
	"pgregory.net/rapid"
	"verif/pbt/evid"
)

// C13 — lexeme sequences tokenize back to themselves with the right classes.

type lexeme struct {
	T int    `json:"t"` // expected token type
	V string `json:"v"`
}

type c13Case struct {
	Tok     string   `json:"tok"` // generic | expression
	Lexemes []lexeme `json:"lexemes"`
	// Used (user configurations only): the tokenizer object tokenized this very text before and between the calls
	// that configure it
	Used bool `json:"used,omitempty"`
}

func lexString(ls []lexeme) string {
	parts := make([]string, len(ls))
	for i, l := range ls {
		parts[i] = fmt.Sprintf("%s(%q)", tokTypeName(l.T), l.V)
	}
	return strings.Join(parts, " ")
}

func joinLexemes(ls []lexeme) string {
	var sb strings.Builder
	for _, l := range ls {
		sb.WriteString(l.V)
	}
	return sb.String()
}

// checkC13: the expected output is always the lexeme list itself (plus Eof).
func checkC13(c c13Case) *evid.Fail {
	input := joinLexemes(c.Lexemes)
	toks, f := tokenizeFresh(c.Tok, 0, input)
	if f != nil {
		return f
	}
	if f := c13Compare(c, input, toks); f != nil {
		return f
	}
	// the iterator form with the presence of a next token asked for twice before every fetch
	toks2, f := tokenizeCapped(newTokenizer(c.Tok), input, 2)
	if f == nil {
		f = c13Compare(c, input, toks2)
	}
	if f != nil {
		f.Sig = "queried-twice:" + f.Sig
	}
	return f
}

func c13Compare(c c13Case, input string, toks []tk) *evid.Fail {
	if len(toks) == 0 || toks[len(toks)-1].T != tokenizers.Eof {
		return evid.F("no-eof", "input %q: tokens %s", input, tksString(toks))
	}
	toks = toks[:len(toks)-1]
	for i := 0; i < len(toks) && i < len(c.Lexemes); i++ {
		want, got := c.Lexemes[i], toks[i]
		if got.V != want.V {
			sig := "lexeme-split-or-merged:" + tokTypeName(want.T)
			if got.T == tokenizers.Unknown {
				sig = "lexeme-unknown-token:" + tokTypeName(want.T)
			} else if len(got.V) == len(want.V) {
				sig = "lexeme-text-changed:" + tokTypeName(want.T)
			}
			return evid.F(sig, "%s tokenizer, input %q: token %d is %s, expected lexeme %s(%q); lexemes %s; tokens %s",
				c.Tok, input, i, got, tokTypeName(want.T), want.V, lexString(c.Lexemes), tksString(toks))
		}
		if got.T != want.T {
			return evid.F("lexeme-class:"+tokTypeName(want.T)+"-as-"+tokTypeName(got.T), "%s tokenizer, input %q: token %d %q has class %s, expected %s",
				c.Tok, input, i, got.V, tokTypeName(got.T), tokTypeName(want.T))
		}
	}
	if len(toks) != len(c.Lexemes) {
		return evid.F("lexeme-count", "%s tokenizer, input %q: %d tokens for %d lexemes: %s", c.Tok, input, len(toks), len(c.Lexemes), tksString(toks))
	}
	return nil
}

func init() { regReplay("C13", checkC13) }

// ---------------------------------------------------------------------------------------
// generator-side reference lexers (maximal munch, written from the lexical grammar; used only to decide
// where a separator is mandatory — never as the expected output)

var exprKeywords = []string{"AND", "OR", "NOT", "XOR", "LIKE", "IS", "IN", "NULL", "TRUE", "FALSE"}

func isDigit(r rune) bool  { return r >= '0' && r <= '9' }
func isLatin(r rune) bool  { return (r >= 'a' && r <= 'z') || (r >= 'A' && r <= 'Z') }
func isLatin1(r rune) bool { return r >= 0xc0 && r <= 0xff }
func isBMPHigh(r rune) bool {
	return r >= 0x100 && r <= 0xfffe
}

func refLex(kind string, s string) []lexeme {
	rs := []rune(s)
	var out []lexeme
	multi := []string{"<>", "<=", ">="}
	if kind == "expression" {
		multi = []string{"<=", ">=", "<>", "!=", ">>", "<<"}
	}
	wordStart := func(r rune) bool {
		if kind == "generic" {
			return isLatin(r) || isLatin1(r) || isBMPHigh(r)
		}
		return isLatin(r) || isLatin1(r) || r == '_'
	}
	wordChar := func(r rune) bool {
		if kind == "generic" {
			return isLatin(r) || isDigit(r) || r == '-' || r == '_' || isLatin1(r) || isBMPHigh(r)
		}
		return isLatin(r) || isDigit(r) || r == '_' || isLatin1(r) || isBMPHigh(r)
	}
	symbol := func(i int) int { // returns end
		for _, m := range multi {
			mr := []rune(m)
			if i+len(mr) <= len(rs) && string(rs[i:i+len(mr)]) == m {
				return i + len(mr)
			}
		}
		return i + 1
	}
	i := 0
	for i < len(rs) {
		r := rs[i]
		switch {
		case r <= ' ':
			j := i
			for j < len(rs) && rs[j] <= ' ' {
				j++
			}
			out = append(out, lexeme{tokenizers.Whitespace, string(rs[i:j])})
			i = j
		case wordStart(r):
			j := i
			for j < len(rs) && wordChar(rs[j]) {
				j++
			}
			t := tokenizers.Word
			if kind == "expression" {
				up := strings.ToUpper(string(rs[i:j]))
				for _, k := range exprKeywords {
					if k == up {
						t = tokenizers.Keyword
					}
				}
			}
			out = append(out, lexeme{t, string(rs[i:j])})
			i = j
		case isDigit(r) || r == '.' || (r == '-' && kind == "generic"):
			j := i
			if rs[j] == '-' {
				j++
			}
			digits := false
			for j < len(rs) && isDigit(rs[j]) {
				j++
				digits = true
			}
			dot := false
			if j < len(rs) && rs[j] == '.' {
				dot = true
				j++
				for j < len(rs) && isDigit(rs[j]) {
					j++
					digits = true
				}
			}
			if !digits {
				e := symbol(i)
				out = append(out, lexeme{tokenizers.Symbol, string(rs[i:e])})
				i = e
				continue
			}
			t := tokenizers.Integer
			if dot {
				t = tokenizers.Float
			}
			if kind == "expression" && j < len(rs) && (rs[j] == 'e' || rs[j] == 'E') {
				k := j + 1
				if k < len(rs) && (rs[k] == '+' || rs[k] == '-') {
					k++
				}
				if k < len(rs) && isDigit(rs[k]) {
					for k < len(rs) && isDigit(rs[k]) {
						k++
					}
					j = k
					t = tokenizers.Float
				}
			}
			out = append(out, lexeme{t, string(rs[i:j])})
			i = j
		case r == '\'' || r == '"':
			j := i + 1
			for j < len(rs) {
				if rs[j] == r {
					if kind == "expression" && j+1 < len(rs) && rs[j+1] == r {
						j += 2
						continue
					}
					j++
					break
				}
				j++
			}
			t := tokenizers.Quoted
			if kind == "expression" && r == '"' {
				t = tokenizers.Word
			}
			out = append(out, lexeme{t, string(rs[i:j])})
			i = j
		case r == '#' && kind == "generic":
			j := i
			for j < len(rs) && rs[j] != '\r' && rs[j] != '\n' {
				j++
			}
			out = append(out, lexeme{tokenizers.Comment, string(rs[i:j])})
			i = j
		case r == '/' && kind == "expression" && i+1 < len(rs) && rs[i+1] == '*':
			j := i + 2
			for j < len(rs) {
				if rs[j] == '/' && rs[j-1] == '*' && j-1 >= i+2 {
					j++
					break
				}
				j++
			}
			out = append(out, lexeme{tokenizers.Comment, string(rs[i:j])})
			i = j
		default:
			e := symbol(i)
			t := tokenizers.Symbol
			if r > 0xfffe || (kind == "generic" && r > 0xff) {
				t = tokenizers.Unknown
			}
			out = append(out, lexeme{t, string(rs[i:e])})
			i = e
		}
	}
	return out
}

func sameLexemes(a, b []lexeme) bool {
	if len(a) != len(b) {
		return false
	}
	for i := range a {
		if a[i] != b[i] {
			return false
		}
	}
	return true
}

func coalesce(ls []lexeme) []lexeme {
	var out []lexeme
	for _, l := range ls {
		if l.V == "" {
			continue
		}
		if l.T == tokenizers.Whitespace && len(out) > 0 && out[len(out)-1].T == tokenizers.Whitespace {
			out[len(out)-1].V += l.V
			continue
		}
		out = append(out, l)
	}
	return out
}

// separate inserts separators (blanks; a line break after a generic '#' comment; optionally a /*..*/ comment
// for the expression tokenizer) wherever the reference lexer does not reproduce the intended boundaries.
// ok=false: the sequence cannot be written that way (dropped by the caller, counted).
func separate(kind string, ls []lexeme, sepChoice func(afterGenericComment bool) lexeme) ([]lexeme, bool) {
	ls = coalesce(ls)
	for iter := 0; iter < 3*len(ls)+6; iter++ {
		r := refLex(kind, joinLexemes(ls))
		if sameLexemes(r, ls) {
			return ls, true
		}
		i := 0
		for i < len(r) && i < len(ls) && r[i] == ls[i] {
			i++
		}
		if i >= len(ls) {
			return nil, false
		}
		// lexeme i does not come back: it merged with its right neighbour (or it is not self-contained)
		if solo := refLex(kind, ls[i].V); len(solo) != 1 || solo[0] != ls[i] {
			return nil, false
		}
		if i+1 >= len(ls) {
			return nil, false
		}
		sep := sepChoice(kind == "generic" && ls[i].T == tokenizers.Comment)
		next := append([]lexeme{}, ls[:i+1]...)
		next = append(next, sep)
		next = append(next, ls[i+1:]...)
		ls = coalesce(next)
	}
	return nil, false
}

// ---------------------------------------------------------------------------------------
// lexeme generators

func genWordRune(t *rapid.T, kind string, first bool) rune {
	k := rapid.IntRange(0, 9).Draw(t, "wk")
	switch {
	case k <= 3:
		return rune(rapid.SampledFrom([]rune("abcdefgxyzABNOTeE")).Draw(t, "latin"))
	case k == 4:
		return rune(rapid.IntRange(0xc0, 0xff).Draw(t, "latin1"))
	case k == 5 && (kind == "generic" || !first):
		r := rune(rapid.IntRange(0x100, 0xfffe).Draw(t, "bmp"))
		if r >= 0xd800 && r <= 0xdfff {
			r = 0x4e2d
		}
		return r
	case k == 6 && (kind == "generic" || !first):
		return rapid.SampledFrom([]rune{0x100, 0x101, 0x4e2d, 0x6587, 0x3b1, 0x44f, 0xfffe, 0xfffd, 0x0663, 0x0967, 0x0e53, 0xff10, 0x2460, 0x0130, 0x212a, 0xfeff, 0x3000, 0x2028}).Draw(t, "bmpnamed")
	case k == 7 && !first:
		return rune('0' + rapid.IntRange(0, 9).Draw(t, "digit"))
	case k == 8 && (!first || kind == "expression"):
		return '_'
	case k == 9 && !first && kind == "generic":
		return '-'
	}
	return 'w'
}

func genDigits(t *rapid.T, min int) string {
	n := rapid.IntRange(min, 4).Draw(t, "nd")
	if rapid.IntRange(0, 29).Draw(t, "longd") == 0 {
		n = rapid.IntRange(15, 200).Draw(t, "longnd")
	}
	var sb strings.Builder
	for i := 0; i < n; i++ {
		sb.WriteByte(byte('0' + rapid.IntRange(0, 9).Draw(t, "d")))
	}
	return sb.String()
}

func genBody(t *rapid.T, forbid func(rs []rune, r rune) bool, maxLen int) string {
	n := rapid.IntRange(0, maxLen).Draw(t, "bn")
	if rapid.IntRange(0, 24).Draw(t, "longbody") == 0 {
		n = rapid.IntRange(60, 700).Draw(t, "longbn") // long literals / comments: chunk sizes of 64, 256, 512 inside one token
	}
	var rs []rune
	for i := 0; i < n; i++ {
		var r rune
		switch rapid.IntRange(0, 5).Draw(t, "bk") {
		case 0:
			r = genRune(t)
		case 1:
			r = rapid.SampledFrom([]rune{'\n', '\r', ' ', '\'', '"', '*', '/', '#', 'é', '中', '😀'}).Draw(t, "bspecial")
		default:
			r = rune(rapid.SampledFrom([]rune("abc 123+-.")).Draw(t, "bplain"))
		}
		if forbid(rs, r) {
			r = 'q'
		}
		rs = append(rs, r)
	}
	return string(rs)
}

func genLexeme(t *rapid.T, kind string) lexeme {
	if kind == "generic" {
		switch rapid.IntRange(0, 7).Draw(t, "class") {
		case 0: // word
			n := rapid.IntRange(1, 6).Draw(t, "wn")
			var sb strings.Builder
			for i := 0; i < n; i++ {
				sb.WriteRune(genWordRune(t, kind, i == 0))
			}
			return lexeme{tokenizers.Word, sb.String()}
		case 1: // number
			sign := rapid.SampledFrom([]string{"", "", "-"}).Draw(t, "sign")
			switch rapid.IntRange(0, 3).Draw(t, "nform") {
			case 0:
				return lexeme{tokenizers.Integer, sign + genDigits(t, 1)}
			case 1:
				return lexeme{tokenizers.Float, sign + genDigits(t, 0) + "." + genDigits(t, 1)}
			case 2:
				return lexeme{tokenizers.Float, genDigits(t, 1) + "."}
			default:
				return lexeme{tokenizers.Float, sign + genDigits(t, 1) + "." + genDigits(t, 1)}
			}
		case 2: // quoted, no own quote inside
			q := rapid.SampledFrom([]rune{'\'', '"'}).Draw(t, "q")
			body := genBody(t, func(_ []rune, r rune) bool { return r == q }, 8)
			return lexeme{tokenizers.Quoted, string(q) + body + string(q)}
		case 3: // comment up to a line break
			body := genBody(t, func(_ []rune, r rune) bool { return r == '\r' || r == '\n' }, 8)
			return lexeme{tokenizers.Comment, "#" + body}
		case 4: // blank run
			n := rapid.IntRange(1, 3).Draw(t, "wsn")
			if rapid.IntRange(0, 14).Draw(t, "longws") == 0 {
				n = rapid.IntRange(15, 280).Draw(t, "longwsn")
			}
			var sb strings.Builder
			for i := 0; i < n; i++ {
				sb.WriteRune(rapid.SampledFrom([]rune{' ', ' ', '\t', '\n', '\r', 0, 0x1f}).Draw(t, "ws"))
			}
			return lexeme{tokenizers.Whitespace, sb.String()}
		case 5:
			return lexeme{tokenizers.Symbol, rapid.SampledFrom([]string{"<>", "<=", ">="}).Draw(t, "msym")}
		default:
			return lexeme{tokenizers.Symbol, rapid.SampledFrom([]string{"!", "$", "%", "&", "(", ")", "*", "+", ",", "/", ":", ";", "<", "=", ">", "?", "@", "[", "\\", "]", "^", "_", "`", "{", "|", "}", "~", "-", ".", "§", "¿", "\u007f"}).Draw(t, "ssym")}
		}
	}
	// expression tokenizer
	switch rapid.IntRange(0, 8).Draw(t, "class") {
	case 0: // identifier
		for try := 0; ; try++ {
			n := rapid.IntRange(1, 6).Draw(t, "wn")
			var sb strings.Builder
			for i := 0; i < n; i++ {
				sb.WriteRune(genWordRune(t, kind, i == 0))
			}
			w := sb.String()
			kw := false
			for _, k := range exprKeywords {
				if strings.ToUpper(w) == k {
					kw = true
				}
			}
			if !kw {
				return lexeme{tokenizers.Word, w}
			}
			if try > 3 {
				return lexeme{tokenizers.Word, w + "_"}
			}
		}
	case 1: // keyword in random letter case
		k := rapid.SampledFrom(exprKeywords).Draw(t, "kw")
		var sb strings.Builder
		for _, r := range k {
			if rapid.Bool().Draw(t, "lower") {
				sb.WriteString(strings.ToLower(string(r)))
			} else {
				sb.WriteRune(r)
			}
		}
		return lexeme{tokenizers.Keyword, sb.String()}
	case 2: // numbers in all notations
		var m string
		t0 := tokenizers.Integer
		switch rapid.IntRange(0, 3).Draw(t, "nform") {
		case 0:
			m = genDigits(t, 1)
		case 1:
			m, t0 = genDigits(t, 1)+"."+genDigits(t, 0), tokenizers.Float
		case 2:
			m, t0 = "."+genDigits(t, 1), tokenizers.Float
		default:
			m, t0 = genDigits(t, 1)+"."+genDigits(t, 1), tokenizers.Float
		}
		if rapid.IntRange(0, 2).Draw(t, "exp") == 0 {
			m += rapid.SampledFrom([]string{"e", "E"}).Draw(t, "e") + rapid.SampledFrom([]string{"", "+", "-"}).Draw(t, "es") + genDigits(t, 1)
			t0 = tokenizers.Float
		}
		return lexeme{t0, m}
	case 3, 4: // strings and quoted identifiers with doubled quotes
		q := rapid.SampledFrom([]rune{'\'', '"'}).Draw(t, "q")
		body := genBody(t, func(_ []rune, r rune) bool { return false }, 8)
		body = strings.ReplaceAll(body, string(q), string(q)+string(q))
		ty := tokenizers.Quoted
		if q == '"' {
			ty = tokenizers.Word
		}
		return lexeme{ty, string(q) + body + string(q)}
	case 5: // comment
		body := genBody(t, func(rs []rune, r rune) bool { return r == '/' && len(rs) > 0 && rs[len(rs)-1] == '*' }, 8)
		return lexeme{tokenizers.Comment, "/*" + body + "*/"}
	case 6:
		n := rapid.IntRange(1, 3).Draw(t, "wsn")
		if rapid.IntRange(0, 14).Draw(t, "longws") == 0 {
			n = rapid.IntRange(15, 280).Draw(t, "longwsn")
		}
		var sb strings.Builder
		for i := 0; i < n; i++ {
			sb.WriteRune(rapid.SampledFrom([]rune{' ', ' ', '\t', '\n', '\r'}).Draw(t, "ws"))
		}
		return lexeme{tokenizers.Whitespace, sb.String()}
	case 7:
		return lexeme{tokenizers.Symbol, rapid.SampledFrom([]string{"<=", ">=", "<>", "!=", ">>", "<<"}).Draw(t, "msym")}
	default:
		return lexeme{tokenizers.Symbol, rapid.SampledFrom([]string{"(", ")", "[", "]", "+", "-", "*", "/", "%", "^", "=", ">", "<", ",", "!", ";", ":", "&", "|", "~", "?", "@", "#", "$", "{", "}", "\\", "."}).Draw(t, "ssym")}
	}
}

func c13NonTrivial(c c13Case) (bool, []string) {
	classes := map[int]bool{}
	var labels []string
	nonLatin := false
	multi := false
	for _, l := range c.Lexemes {
		classes[l.T] = true
		labels = append(labels, "class:"+tokTypeName(l.T))
		if l.T == tokenizers.Symbol && len([]rune(l.V)) > 1 {
			multi = true
			labels = append(labels, "sym:"+l.V)
		}
		if l.T == tokenizers.Keyword {
			labels = append(labels, "kw:"+strings.ToUpper(l.V))
		}
		if l.T == tokenizers.Word && !strings.HasPrefix(l.V, "\"") {
			for _, r := range l.V {
				if r >= 0x100 {
					nonLatin = true
				}
			}
		}
	}
	if nonLatin {
		labels = append(labels, "non-latin-identifier")
	}
	return (len(c.Lexemes) >= 3 && len(classes) >= 2) || multi || nonLatin, labels
}

const c13Rule = "tokenizer (generic | expression) x sequence of well-formed lexemes, separators inserted wherever a generator-side reference lexer shows neighbours would merge; oracle: tokens (type, value) equal the lexeme list itself; non-trivial = at least 3 lexemes of at least 2 classes, or a multi-character symbol, or a non-Latin identifier; distinct by (tokenizer, lexeme list)"

func c13Run(rec *evid.Recorder, c c13Case) bool {
	nt, labels := c13NonTrivial(c)
	rec.Case(jsonStr(c), nt, func() interface{} { return c }, append(labels, "tok:"+c.Tok)...)
	input := joinLexemes(c.Lexemes)
	toks, f := tokenizeWith(c.Tok, 0, input)
	if f == nil {
		f = c13Compare(c, input, toks)
	}
	if f == nil && len(input)%4 == 0 {
		// a quarter of the cases also through the iterator with two has-next queries per fetch
		t := getTok(c.Tok)
		setOptions(t, 0)
		toks2, f2 := tokenizeCapped(t, input, 2)
		if f2 == nil {
			putTok(c.Tok, t)
			f2 = c13Compare(c, input, toks2)
		}
		f = f2
	}
	if f != nil {
		if ff := checkC13(c); ff != nil {
			return rec.Fail(ff, c)
		}
		return rec.Fail(evid.F("reused-instance-only:"+f.Sig, "%s", f.Msg), c)
	}
	return false
}

func TestC13_Rapid(t *testing.T) {
	rec := evid.New("C13", "TestC13_Rapid", "C13", c13Rule+"; rapid: 1..25 lexemes drawn from each tokenizer's lexical grammar")
	defer finish(t, rec)
	runRapid(t, pick(40000, 300000), 13, func(rt *rapid.T) {
		kind := rapid.SampledFrom([]string{"generic", "expression"}).Draw(rt, "tok")
		n := rapid.IntRange(1, 25).Draw(rt, "n")
		if rapid.IntRange(0, 19).Draw(rt, "long") == 0 {
			n = rapid.IntRange(25, 250).Draw(rt, "longn")
		}
		var ls []lexeme
		for i := 0; i < n; i++ {
			ls = append(ls, genLexeme(rt, kind))
		}
		sepChoice := func(afterComment bool) lexeme {
			if afterComment {
				return lexeme{tokenizers.Whitespace, "\n"}
			}
			return lexeme{tokenizers.Whitespace, " "}
		}
		final, ok := separate(kind, ls, sepChoice)
		if !ok {
			rec.Excluded(1)
			rt.Skip("sequence cannot be separated")
		}
		if c13Run(rec, c13Case{Tok: kind, Lexemes: final}) {
			rt.Fatalf("C13 violated")
		}
	})
	requireLabels(t, rec, "non-latin-identifier", "sym:<=", "sym:<>", "sym:>=", "sym:!=", "sym:<<", "sym:>>", "kw:AND", "kw:NULL", "class:Comment", "class:Float", "class:Quoted")
}

// pools for the exhaustive pairs/triples: every multi-character symbol, every keyword, every class
var c13Pools = map[string][]lexeme{
	"generic": {
		{tokenizers.Word, "a"}, {tokenizers.Word, "ab-c_1"}, {tokenizers.Word, "é"}, {tokenizers.Word, "中文"}, {tokenizers.Word, "Ωx"},
		{tokenizers.Integer, "1"}, {tokenizers.Integer, "-12"}, {tokenizers.Float, "1.5"}, {tokenizers.Float, "-.5"}, {tokenizers.Float, "3."},
		{tokenizers.Quoted, "'x y'"}, {tokenizers.Quoted, "\"q'é\""}, {tokenizers.Quoted, "''"}, {tokenizers.Comment, "# c <> 1"}, {tokenizers.Comment, "#"},
		{tokenizers.Whitespace, " "}, {tokenizers.Whitespace, "\n"}, {tokenizers.Whitespace, "\t \r\n"},
		{tokenizers.Symbol, "<>"}, {tokenizers.Symbol, "<="}, {tokenizers.Symbol, ">="}, {tokenizers.Symbol, "<"}, {tokenizers.Symbol, ">"}, {tokenizers.Symbol, "="},
		{tokenizers.Symbol, "-"}, {tokenizers.Symbol, "."}, {tokenizers.Symbol, "+"}, {tokenizers.Symbol, "("}, {tokenizers.Symbol, "_"}, {tokenizers.Symbol, "/"},
		{tokenizers.Symbol, "*"}, {tokenizers.Symbol, "!"}, {tokenizers.Symbol, "{"}, {tokenizers.Symbol, ","}, {tokenizers.Symbol, "§"},
	},
	"expression": {
		{tokenizers.Word, "a"}, {tokenizers.Word, "_x1"}, {tokenizers.Word, "é中"}, {tokenizers.Word, "notx"}, {tokenizers.Word, "e5"}, {tokenizers.Word, "\"q\"\"i\""},
		{tokenizers.Keyword, "AND"}, {tokenizers.Keyword, "or"}, {tokenizers.Keyword, "Not"}, {tokenizers.Keyword, "xOr"}, {tokenizers.Keyword, "LIKE"}, {tokenizers.Keyword, "is"},
		{tokenizers.Keyword, "IN"}, {tokenizers.Keyword, "null"}, {tokenizers.Keyword, "True"}, {tokenizers.Keyword, "FALSE"},
		{tokenizers.Integer, "1"}, {tokenizers.Integer, "007"}, {tokenizers.Float, "1.5"}, {tokenizers.Float, ".5"}, {tokenizers.Float, "5."}, {tokenizers.Float, "1e5"}, {tokenizers.Float, "2.5E-3"}, {tokenizers.Float, "3e+2"},
		{tokenizers.Quoted, "'x''y'"}, {tokenizers.Quoted, "'é\n'"}, {tokenizers.Quoted, "''"}, {tokenizers.Comment, "/* c */"}, {tokenizers.Comment, "/**/"}, {tokenizers.Comment, "/* 中\n* / */"},
		{tokenizers.Whitespace, " "}, {tokenizers.Whitespace, "\r\n\t"},
		{tokenizers.Symbol, "<="}, {tokenizers.Symbol, ">="}, {tokenizers.Symbol, "<>"}, {tokenizers.Symbol, "!="}, {tokenizers.Symbol, ">>"}, {tokenizers.Symbol, "<<"},
		{tokenizers.Symbol, "<"}, {tokenizers.Symbol, ">"}, {tokenizers.Symbol, "="}, {tokenizers.Symbol, "!"}, {tokenizers.Symbol, "-"}, {tokenizers.Symbol, "+"}, {tokenizers.Symbol, "*"},
		{tokenizers.Symbol, "/"}, {tokenizers.Symbol, "("}, {tokenizers.Symbol, ")"}, {tokenizers.Symbol, "["}, {tokenizers.Symbol, ","}, {tokenizers.Symbol, "."}, {tokenizers.Symbol, "^"}, {tokenizers.Symbol, "%"},
	},
}

func TestC13_Exhaustive(t *testing.T) {
	rec := evid.New("C13", "TestC13_Exhaustive", "C13", c13Rule)
	rec.Exhaustive = true
	defer finish(t, rec)
	rec.Bounds = fmt.Sprintf("every ordered pair and triple of a %d-lexeme (generic) / %d-lexeme (expression) pool that contains every multi-character symbol, every keyword and every class; separators inserted deterministically (blank, or line break after a # comment)",
		len(c13Pools["generic"]), len(c13Pools["expression"]))
	sepChoice := func(afterComment bool) lexeme {
		if afterComment {
			return lexeme{tokenizers.Whitespace, "\n"}
		}
		return lexeme{tokenizers.Whitespace, " "}
	}
	for _, kind := range []string{"generic", "expression"} {
		pool := c13Pools[kind]
		kind := kind
		for _, l := range pool {
			if solo := refLex(kind, l.V); len(solo) != 1 || solo[0] != l {
				t.Fatalf("HARNESS-ERROR pool lexeme %v is not self-contained for the %s reference lexer: %v", l, kind, solo)
			}
		}
		parallelFor(len(pool)*len(pool), func(i int) {
			a, b := pool[i/len(pool)], pool[i%len(pool)]
			seqs := [][]lexeme{{a, b}}
			for _, c := range pool {
				seqs = append(seqs, []lexeme{a, b, c})
			}
			if i%len(pool) == 0 {
				seqs = append(seqs, []lexeme{a})
			}
			for _, s := range seqs {
				final, ok := separate(kind, s, sepChoice)
				if !ok {
					rec.Excluded(1)
					continue
				}
				c13Run(rec, c13Case{Tok: kind, Lexemes: final})
			}
		})
	}
}

// TestC13_EnumCustomConfig: lexeme sequences under user configurations of the two tokenizers - a disabled
// sub-range of the word characters (above and below U+0100), extra symbols whose proper prefixes are not
// registered, characters re-mapped to another state. The expected output is the lexeme list itself; the lists are
// written from the lexical definitions (a disabled character ends a word; the longest registered symbol wins; an
// unregistered prefix is read character by character).
func TestC13_EnumCustomConfig(t *testing.T) {
	rec := evid.New("C13", "TestC13_EnumCustomConfig", "C13.custom", c13Rule+"; user configurations: disabled word sub-ranges above / below U+0100, added symbols with unregistered prefixes, re-mapped characters")
	rec.Exhaustive = true
	defer finish(t, rec)
	W, S, I, B, P := tokenizers.Word, tokenizers.Symbol, tokenizers.Integer, tokenizers.Whitespace, tokenizers.Special
	type cfgCase struct {
		cfg string
		ls  []lexeme
	}
	var cases []cfgCase
	// the same lexeme material in every arrangement of up to three pieces, with and without blanks
	pieces := map[string][][]lexeme{
		"generic+ws": {{{W, "你好"}}, {{S, "。"}}, {{W, "世界"}}, {{W, "x"}}, {{S, "\n"}}, {{B, " "}}, {{I, "12"}}, {{S, "　"}}, {{W, "é"}}},
		"generic+sym": {{{S, "..."}}, {{S, "."}, {S, "."}}, {{W, "a"}}, {{S, "=:~"}}, {{S, "="}, {S, ":"}}, {{S, "-->"}}, {{B, " "}}, {{S, "<=>"}}, {{S, "<="}}, {{S, "≠≠"}}, {{S, "≠"}}, {{I, "7"}},
			// a four- and a six-character symbol whose inner prefixes are not registered, whole and cut short
			{{P, ";"}}, {{P, ";"}, {P, ";"}}, {{P, "¤"}}, {{S, "::"}}, {{S, "::="}}, {{S, ":"}},
			{{S, "<!--"}}, {{S, "<"}, {S, "!"}}, {{S, "<"}, {S, "!"}, {S, "-"}, {W, "b"}}, {{S, "=:~=:~"}}, {{S, "=:~"}, {S, "="}, {S, ":"}, {B, " "}}},
		"expression+dis": {{{W, "x"}}, {{S, "。"}}, {{W, "y1"}}, {{S, "+"}}, {{I, "1"}}, {{B, " "}}, {{W, "é中"}}, {{S, "<="}}},
		"expression+arrow": {{{W, "x"}}, {{S, "->"}}, {{S, "-"}}, {{S, "-="}}, {{S, "--"}}, {{I, "1"}}, {{B, " "}}, {{S, "+="}}, {{S, "=>"}}, {{S, "+"}}, {{S, ">"}}},
		"expression+greek": {{{W, "Σx"}}, {{W, "αΣ"}}, {{S, "+"}}, {{W, "a"}}, {{I, "1"}}, {{B, " "}}, {{W, "Σ"}}, {{S, "<="}}},
	}
	for cfg, ps := range pieces {
		for i := range ps {
			cases = append(cases, cfgCase{cfg, ps[i]})
			for j := range ps {
				cases = append(cases, cfgCase{cfg, append(append([]lexeme{}, ps[i]...), ps[j]...)})
				for k := range ps {
					cases = append(cases, cfgCase{cfg, append(append(append([]lexeme{}, ps[i]...), ps[j]...), ps[k]...)})
				}
			}
		}
	}
	rec.Bounds = fmt.Sprintf("%d lexeme sequences: every arrangement of up to three pieces of a small lexeme inventory under three user configurations", len(cases))
	for _, cc := range cases {
		// keep only sequences the definitions leave unambiguous: neighbours that would merge are skipped
		ok := true
		for i := 0; i+1 < len(cc.ls); i++ {
			a, b := cc.ls[i], cc.ls[i+1]
			if a.T == b.T && (a.T == W || a.T == I || a.T == B) {
				ok = false
			}
			if a.T == W && !strings.HasPrefix(cc.cfg, "expression+") && strings.HasPrefix(b.V, "-") {
				ok = false // '-' continues a generic word
			}
			if (a.T == W && b.T == I) || (a.T == I && b.T == S && strings.HasPrefix(b.V, ".")) || (a.T == S && a.V == "." && b.T == I) {
				ok = false // word+digits merge, "12." is a float
			}
		}
		// a symbol lexeme must be what maximal munch over the registered symbols yields at its position
		registered := map[string]int{"<>": S, "<=": S, ">=": S}
		switch cc.cfg {
		case "generic+sym":
			for _, s := range []string{"...", "=:~", "-->", "::=", "≠≠", "<=>", "<!--", "=:~=:~", "::"} {
				registered[s] = S
			}
			registered[";"], registered["¤"] = P, P
		case "expression+dis", "expression+greek":
			registered = map[string]int{"<=": S, ">=": S, "<>": S, "!=": S, ">>": S, "<<": S}
		case "expression+arrow":
			registered = map[string]int{"<=": S, ">=": S, "<>": S, "!=": S, ">>": S, "<<": S, "->": S, "-=": S, "--": S, "+=": S, "=>": S}
		}
		rest := []rune(joinLexemes(cc.ls))
		for _, l := range cc.ls {
			if l.T == S || l.T == P {
				if text, _ := c16Expect(registered, rest); text != l.V {
					ok = false
				}
			}
			rest = rest[len([]rune(l.V)):]
		}
		if !ok {
			rec.Excluded(1)
			continue
		}
		for _, used := range []bool{false, true} {
			c := c13Case{Tok: cc.cfg, Lexemes: cc.ls, Used: used}
			nt, _ := c13NonTrivial(c)
			rec.Case(jsonStr(c), nt || len(cc.ls) >= 2, func() interface{} { return c }, "cfg:"+cc.cfg)
			if f := checkC13Custom(c); f != nil {
				rec.Fail(f, c)
			}
		}
	}
	requireLabels(t, rec, "cfg:generic+ws", "cfg:generic+sym", "cfg:expression+dis", "cfg:expression+greek", "cfg:expression+arrow")
}

func checkC13Custom(c c13Case) *evid.Fail {
	input := joinLexemes(c.Lexemes)
	warm := ""
	if c.Used {
		warm = input
	}
	var t tokenizers.ITokenizer
	if g := guard(func() { t = newTokenizerUsed(c.Tok, warm) }); g != nil {
		g.Msg = fmt.Sprintf("configuring a %s tokenizer that is in use on %q: %s", c.Tok, input, g.Msg)
		return g
	}
	toks, f := tokenizeCapped(t, input, 0)
	if f != nil {
		return f
	}
	f = c13Compare(c, input, toks)
	if f != nil && c.Used {
		f.Msg = "tokenizer used on this text before and between its configuration calls: " + f.Msg
	}
	return f
}

func init() { regReplay("C13.custom", checkC13Custom) }
