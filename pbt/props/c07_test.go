package props

import (
	"fmt"
	"math"
	"testing"
	"time"

	"github.com/pip-services3-gox/pip-services3-expressions-gox/variants"
	"pgregory.net/rapid"
	"verif/pbt/evid"
)

// C07 — variant conversions deliver the requested type and round-trip losslessly.

type c07Case struct {
	V      val      `json:"v"`
	Chain  []string `json:"chain"` // target kinds applied in order (one for a plain conversion, A->B->A for a round trip)
	Safe   bool     `json:"safe"`
	RoundT bool     `json:"roundTrip"` // the chain must end in the original value
	// Host > 0: the source is built from a host value through NewVariant / VariantFromObject, with every Go type the
	// constructor maps to the value's variant type (int32 for Integer, uint / uint32 for Long ...), chosen by Host
	Host int `json:"host,omitempty"`
}

var kindToType = map[string]variants.VariantType{"null": variants.Null, "int": variants.Integer, "long": variants.Long, "float": variants.Float,
	"double": variants.Double, "string": variants.String, "bool": variants.Boolean, "datetime": variants.DateTime, "timespan": variants.TimeSpan,
	"object": variants.Object, "array": variants.Array}

func checkC07(c c07Case) *evid.Fail {
	ops := opsManager(c.Safe)
	other := opsManager(!c.Safe)
	mgr := "type-unsafe"
	if c.Safe {
		mgr = "type-safe"
	}
	cur := c.V.toVariant()
	if c.Host > 0 {
		cur = c.V.toHostVariant(c.Host)
	}
	curVal := c.V
	for step, target := range c.Chain {
		before := fromVariant(cur)
		var got *variants.Variant
		var err error
		if g := guard(func() { got, err = ops.Convert(cur, kindToType[target]) }); g != nil {
			g.Msg = fmt.Sprintf("%s Convert(%s, %s): %s", mgr, curVal, target, g.Msg)
			return g
		}
		cell := curVal.K + ">" + target
		desc := fmt.Sprintf("%s Convert(%s, %s)", mgr, curVal, target)
		if got == nil && err == nil {
			return evid.F("neither-result-nor-error:"+cell, "%s returned (nil, nil)", desc)
		}
		if got != nil && err != nil {
			return evid.F("both-result-and-error:"+cell, "%s returned a value and %v", desc, err)
		}
		if !equalVal(fromVariant(cur), before) {
			return evid.F("source-mutated:"+cell, "%s changed its source to %s", desc, fromVariant(cur))
		}
		want := refConvert(curVal, target, c.Safe)
		if err != nil {
			if want.St == refExact {
				return evid.F("error-for-defined-conversion:"+cell, "%s failed with %v, expected %s", desc, err, want.V)
			}
			if c.RoundT {
				return evid.F("roundtrip-step-failed:"+cell, "%s failed with %v in the chain %v from %s", desc, err, c.Chain, c.V)
			}
			return nil
		}
		gv := fromVariant(got)
		// a successful conversion has exactly the requested type (the unchanged value for Object / own type)
		switch {
		case target == "object" || target == curVal.K:
			if !equalVal(gv, curVal) {
				return evid.F("unchanged-value-expected:"+cell, "%s = %s, expected the unchanged value", desc, gv)
			}
		case got.Type() != kindToType[target]:
			return evid.F("wrong-result-type:"+cell, "%s succeeded with a %s (%s)", desc, vtName(got.Type()), gv)
		}
		switch want.St {
		case refMustError:
			return evid.F("conversion-must-fail:"+cell, "%s = %s, but %s", desc, gv, want.Why)
		case refExact:
			if !equalVal(gv, want.V) {
				return evid.F("wrong-value:"+cell, "%s = %s, expected %s", desc, gv, want.V)
			}
		}
		// wherever the type-safe manager succeeds it agrees with the type-unsafe one
		var og *variants.Variant
		var oerr error
		if g := guard(func() { og, oerr = other.Convert(curVal.toVariant(), kindToType[target]) }); g == nil && oerr == nil && og != nil {
			if !equalVal(fromVariant(og), gv) {
				return evid.F("managers-disagree:"+cell, "%s = %s but the other manager gives %s", desc, gv, fromVariant(og))
			}
		} else if c.Safe && (g != nil || oerr != nil) {
			return evid.F("safe-succeeds-unsafe-fails:"+cell, "%s = %s but the type-unsafe manager fails (%v)", desc, gv, oerr)
		}
		// a result belongs to the caller: changing it in place must not leak into the source, into shared
		// package state, or into later conversions (a result may be the source itself only for Object / own type)
		if got != cur {
			var again, third *variants.Variant
			if g := guard(func() {
				again, _ = ops.Convert(cur, kindToType[target])
				if again != nil && again != cur {
					again.SetAsString("changed by the caller")
				}
				third, _ = ops.Convert(cur, kindToType[target])
			}); g != nil {
				return g
			}
			if !equalVal(fromVariant(cur), before) {
				return evid.F("result-aliases-source:"+cell, "%s: changing the result in place changed the source to %s", desc, fromVariant(cur))
			}
			if variants.Empty.Type() != variants.Null || variants.Empty.AsObject() != nil {
				variants.Empty.Clear()
				return evid.F("result-aliases-shared-state:"+cell, "%s: changing the result in place changed the package-level variants.Empty", desc)
			}
			if third == nil || !equalVal(fromVariant(third), gv) {
				return evid.F("conversion-not-repeatable:"+cell, "%s = %s, but after the caller changed an earlier result the same conversion gives %s", desc, gv, fromVariant(third))
			}
		}
		cur, curVal = got, gv
		_ = step
	}
	if c.RoundT && !equalVal(curVal, c.V) {
		return evid.F("roundtrip-lossy:"+c.V.K+">"+c.Chain[0], "%s %s -> %v came back as %s", mgr, c.V, c.Chain, curVal)
	}
	return nil
}

func init() { regReplay("C07", checkC07) }

const c07Rule = "value x target type (or a round-trip chain A->B->A) x manager; oracle: reference conversion table written from the statement (requested type on success, unchanged value for Object / own type, exact values for the named pairs, type-safe whitelist, managers agree where both succeed, source unchanged, lossless round trips inside the exact ranges); non-trivial = source type differs from the target and the target is neither Null nor Object; distinct by (value, chain, manager)"

func c07Pool() []val {
	return append(valuePool(), val{K: "object", S: "payload"})
}

func c07Run(rec *evid.Recorder, c c07Case) bool {
	nt := len(c.Chain) > 0 && c.Chain[0] != c.V.K && c.Chain[0] != "null" && c.Chain[0] != "object"
	lab := "plain"
	if c.RoundT {
		lab = "roundtrip:" + c.V.K + ">" + c.Chain[0]
	}
	rec.Case(jsonStr(c), nt, func() interface{} { return fmt.Sprintf("%s -> %v safe=%v", c.V, c.Chain, c.Safe) }, "pair:"+c.V.K+">"+c.Chain[0], lab)
	if f := checkC07(c); f != nil {
		return rec.Fail(f, c)
	}
	return false
}

func TestC07_Exhaustive(t *testing.T) {
	rec := evid.New("C07", "TestC07_Exhaustive", "C07", c07Rule)
	rec.Exhaustive = true
	rec.DupFree = true
	defer finish(t, rec)
	pool := c07Pool()
	rec.Bounds = fmt.Sprintf("every value of the %d-value boundary pool (incl. an Object) x all 11 target types x 2 managers, and every two-step chain A->B->A over the pool", len(pool))
	parallelFor(len(pool), func(i int) {
		v := pool[i]
		for _, safe := range []bool{false, true} {
			for _, k := range allKinds {
				c07Run(rec, c07Case{V: v, Chain: []string{k}, Safe: safe})
				for host := 1; host <= 3; host++ {
					c07Run(rec, c07Case{V: v, Chain: []string{k}, Safe: safe, Host: host})
				}
				if k != v.K {
					c07Run(rec, c07Case{V: v, Chain: []string{k, v.K}, Safe: safe})
				}
			}
		}
	})
	var need []string
	for _, a := range allKinds {
		for _, b := range allKinds {
			need = append(need, "pair:"+a+">"+b)
		}
	}
	requireLabels(t, rec, need...)
}

// lossless pairs and generators of values inside their exact ranges
type c07RT struct {
	from, via string
	gen       func(t *rapid.T) val
}

func c07RoundTrips() []c07RT {
	genInt := func(lim int64) func(t *rapid.T) val {
		return func(t *rapid.T) val {
			if rapid.Bool().Draw(t, "edge") {
				return vInt(int(rapid.SampledFrom([]int64{0, 1, -1, lim, -lim, lim - 1}).Draw(t, "e")))
			}
			return vInt(int(rapid.Int64Range(-lim, lim).Draw(t, "n")))
		}
	}
	genLong := func(lim int64) func(t *rapid.T) val {
		return func(t *rapid.T) val {
			if rapid.Bool().Draw(t, "edge") {
				return vLong(rapid.SampledFrom([]int64{0, 1, -1, lim, -lim, lim - 1}).Draw(t, "e"))
			}
			return vLong(rapid.Int64Range(-lim, lim).Draw(t, "n"))
		}
	}
	genBool := func(t *rapid.T) val { return vBool(rapid.Bool().Draw(t, "b")) }
	genFloat := func(t *rapid.T) val {
		return vFloat(rapid.OneOf(rapid.Float32(), rapid.SampledFrom([]float32{0, 1, -1, 0.5, math.MaxFloat32, math.SmallestNonzeroFloat32, float32(math.Inf(1))})).Draw(t, "f"))
	}
	all := int64(math.MaxInt64)
	ms := all / 1000000
	return []c07RT{
		{"int", "long", genInt(all)}, {"long", "int", genLong(all)},
		{"int", "double", genInt(1 << 53)}, {"long", "double", genLong(1 << 53)},
		{"int", "float", genInt(1 << 24)}, {"long", "float", genLong(1 << 24)},
		{"float", "double", genFloat},
		{"bool", "int", genBool}, {"bool", "long", genBool}, {"bool", "float", genBool}, {"bool", "double", genBool}, {"bool", "string", genBool},
		{"int", "timespan", genInt(ms)}, {"long", "timespan", genLong(ms)},
		{"int", "datetime", genInt(1e11)}, {"long", "datetime", genLong(1e11)},
		{"int", "string", genInt(1 << 53)}, {"long", "string", genLong(1 << 53)},
		{"timespan", "long", func(t *rapid.T) val {
			return vSpan(time.Duration(rapid.Int64Range(-ms, ms).Draw(t, "ms")) * time.Millisecond)
		}},
		{"timespan", "int", func(t *rapid.T) val {
			return vSpan(time.Duration(rapid.Int64Range(-ms, ms).Draw(t, "ms")) * time.Millisecond)
		}},
		{"datetime", "long", func(t *rapid.T) val { return vTime(time.Unix(rapid.Int64Range(-1e11, 1e11).Draw(t, "s"), 0).UTC()) }},
		{"datetime", "int", func(t *rapid.T) val { return vTime(time.Unix(rapid.Int64Range(-1e11, 1e11).Draw(t, "s"), 0)) }},
		{"double", "long", func(t *rapid.T) val { return vDouble(float64(rapid.Int64Range(-1<<53, 1<<53).Draw(t, "whole"))) }},
		{"double", "int", func(t *rapid.T) val { return vDouble(float64(rapid.Int64Range(-1<<53, 1<<53).Draw(t, "whole"))) }},
	}
}

func TestC07_RapidRoundTrips(t *testing.T) {
	rec := evid.New("C07", "TestC07_RapidRoundTrips", "C07", c07Rule+"; rapid: the lossless pairs of the statement with values drawn inside their exact ranges, A->B->A under the type-unsafe manager (and the widening leg under the type-safe one)")
	defer finish(t, rec)
	rts := c07RoundTrips()
	runRapid(t, pick(40000, 300000), 7, func(rt *rapid.T) {
		r := rapid.SampledFrom(rts).Draw(rt, "pair")
		c := c07Case{V: r.gen(rt), Chain: []string{r.via, r.from}, RoundT: true, Host: rapid.SampledFrom([]int{0, 0, 1, 2, 3, 4}).Draw(rt, "host")}
		if c07Run(rec, c) {
			rt.Fatalf("C07 violated")
		}
	})
	var need []string
	for _, r := range rts {
		need = append(need, "roundtrip:"+r.from+">"+r.via)
	}
	requireLabels(t, rec, need...)
}

func TestC07_Rapid(t *testing.T) {
	rec := evid.New("C07", "TestC07_Rapid", "C07", c07Rule+"; rapid: random values of every type x random target x manager")
	defer finish(t, rec)
	runRapid(t, pick(40000, 300000), 77, func(rt *rapid.T) {
		v := genValue(rt, 2)
		if rapid.IntRange(0, 19).Draw(rt, "obj") == 0 {
			v = val{K: "object", S: "payload"}
		}
		c := c07Case{V: v, Chain: []string{rapid.SampledFrom(allKinds).Draw(rt, "target")}, Safe: rapid.Bool().Draw(rt, "safe"), Host: rapid.SampledFrom([]int{0, 0, 0, 1, 2, 3}).Draw(rt, "host")}
		if c07Run(rec, c) {
			rt.Fatalf("C07 violated")
		}
	})
}

// The type-safe manager's rules are those its operators apply to their second operand too (the only place most
// callers ever meet them): every operator that converts, over the whole value pool, decided by C06's reference.
func TestC07_EnumSafeManagerOperators(t *testing.T) {
	rec := evid.New("C07", "TestC07_EnumSafeManagerOperators", "C06", "the implicit conversion of the second operand inside the operators of the type-safe manager follows the type-safe rules (only the numeric widenings; anything else is an error): operators Add, Equal, Less over every ordered pair of the value pool; oracle: the operator reference of C06; non-trivial = both operands non-null and of different types; distinct by (operator, values)")
	rec.Exhaustive = true
	rec.DupFree = true
	defer finish(t, rec)
	pool := valuePool()
	rec.Bounds = fmt.Sprintf("%d x %d value pairs x {Add, Equal, Less}, type-safe manager", len(pool), len(pool))
	parallelFor(len(pool), func(i int) {
		for _, b := range pool {
			for _, op := range []string{"Add", "Equal", "Less"} {
				c := c06Case{Op: op, A: pool[i], B: b, Safe: true}
				rec.Case(jsonStr(c), pool[i].K != "null" && b.K != "null" && pool[i].K != b.K, func() interface{} { return c })
				if f := checkC06(c); f != nil {
					f.Sig = "safe-manager-operator:" + f.Sig
					rec.Fail(f, c)
				}
			}
		}
	})
}

// ---------------------------------------------------------------------------------------
// One manager object over a history of conversions, every result kept by the caller. A result belongs to the caller
// for good: whatever the manager does later - conversions that fail, conversions of other values, conversions of
// earlier results - a value handed out before still is what it was when it was returned.

type c07Step struct {
	V      val    `json:"v"`
	Target string `json:"target"`
	From   int    `json:"from"` // -1: a fresh variant built from V; k >= 0: the k-th kept result (mod their number) is the source
}

type c07HistCase struct {
	Safe  bool      `json:"safe"`
	Steps []c07Step `json:"steps"`
}

func checkC07Hist(c c07HistCase) *evid.Fail {
	ops := opsManager(c.Safe)
	mgr := "type-unsafe"
	if c.Safe {
		mgr = "type-safe"
	}
	type kept struct {
		v    *variants.Variant
		was  val
		step int
	}
	var held []kept
	for i, s := range c.Steps {
		var src *variants.Variant
		srcVal := s.V
		if s.From >= 0 && len(held) > 0 {
			k := held[s.From%len(held)]
			src, srcVal = k.v, k.was
		} else {
			src = s.V.toVariant()
		}
		var got *variants.Variant
		var err error
		desc := fmt.Sprintf("step %d of %d on one %s manager: Convert(%s, %s)", i, len(c.Steps), mgr, srcVal, s.Target)
		if g := guard(func() { got, err = ops.Convert(src, kindToType[s.Target]) }); g != nil {
			g.Msg = desc + ": " + g.Msg
			return g
		}
		cell := srcVal.K + ">" + s.Target
		if got == nil && err == nil {
			return evid.F("neither-result-nor-error:"+cell, "%s returned (nil, nil)", desc)
		}
		if got != nil && err != nil {
			return evid.F("both-result-and-error:"+cell, "%s returned a value and %v", desc, err)
		}
		if !equalVal(fromVariant(src), srcVal) {
			return evid.F("source-mutated:"+cell, "%s changed its source to %s", desc, fromVariant(src))
		}
		want := refConvert(srcVal, s.Target, c.Safe)
		switch {
		case err != nil && want.St == refExact:
			return evid.F("history:error-for-defined-conversion:"+cell, "%s failed with %v, expected %s", desc, err, want.V)
		case err == nil && want.St == refMustError:
			return evid.F("history:conversion-must-fail:"+cell, "%s = %s, but %s", desc, fromVariant(got), want.Why)
		case err == nil && want.St == refExact && !equalVal(fromVariant(got), want.V):
			return evid.F("history:wrong-value:"+cell, "%s = %s, expected %s", desc, fromVariant(got), want.V)
		}
		// everything handed out earlier still is what it was
		for _, k := range held {
			if k.v == got {
				continue // the source itself comes back for Object / own type
			}
			if now := fromVariant(k.v); !equalVal(now, k.was) {
				return evid.F("earlier-result-changed", "%s: the result of step %d was %s and now is %s", desc, k.step, k.was, now)
			}
		}
		if err == nil {
			held = append(held, kept{got, fromVariant(got), i})
		}
	}
	return nil
}

func init() { regReplay("C07.hist", checkC07Hist) }

func c07HistNonTrivial(c c07HistCase) bool {
	failed, after := false, 0
	for _, s := range c.Steps {
		if s.From < 0 {
			if refConvert(s.V, s.Target, c.Safe).St == refMustError {
				failed = true
			} else if failed {
				after++
			}
		}
	}
	return after >= 2
}

func TestC07_RapidHistories(t *testing.T) {
	rec := evid.New("C07", "TestC07_RapidHistories", "C07.hist", "histories of 2..12 conversions on ONE manager object (fresh values and earlier results as sources, failing conversions in between), every result kept by the caller: each step against the reference conversion table, and after each step every result handed out earlier still has the value it was returned with; non-trivial = a conversion the reference rejects followed by at least two others; distinct by case")
	defer finish(t, rec)
	runRapid(t, pick(20000, 150000), 777, func(rt *rapid.T) {
		c := c07HistCase{Safe: rapid.IntRange(0, 3).Draw(rt, "safe") == 0}
		n := rapid.IntRange(2, 12).Draw(rt, "n")
		for i := 0; i < n; i++ {
			s := c07Step{From: -1, Target: rapid.SampledFrom(allKinds).Draw(rt, "target")}
			switch rapid.IntRange(0, 9).Draw(rt, "how") {
			case 0, 1:
				s.From = rapid.IntRange(0, 11).Draw(rt, "from")
				s.V = vNull()
			case 2:
				// a conversion no manager offers
				s.V = rapid.SampledFrom([]val{vFloat(1.5), vString("abc"), vArray(vInt(1)), vBool(true)}).Draw(rt, "odd")
				s.Target = rapid.SampledFrom([]string{"datetime", "array", "timespan"}).Draw(rt, "oddTarget")
			default:
				s.V = genValue(rt, 1)
			}
			c.Steps = append(c.Steps, s)
		}
		rec.Case(jsonStr(c), c07HistNonTrivial(c), func() interface{} { return c }, fmt.Sprintf("safe:%v", c.Safe))
		if f := checkC07Hist(c); f != nil {
			if rec.Fail(f, c) {
				rt.Fatalf("%v", f)
			}
		}
	})
}
