package props

import (
	"encoding/binary"
	"encoding/json"
	"flag"
	"fmt"
	"os"
	"runtime"
	"sort"
	"strconv"
	"strings"
	"sync"
	"sync/atomic"
	"testing"
	"time"

	"pgregory.net/rapid"
	"verif/pbt/evid"
)

const repoMod = "github.com/pip-services3-gox/pip-services3-expressions-gox/"

// The sandbox runs in UTC, where "local" and "UTC" calendar arithmetic coincide. The checks therefore run with a
// process-local zone that has an offset (chosen by VERIF_SEED: +05:30, -08:00, +13:00, or UTC for seeds = 0 mod 4),
// set once before any test starts; the references use instants (time.Unix) and time.Local exactly as the statements do.
func init() {
	offsets := []int{0, 5*3600 + 1800, -8 * 3600, 13 * 3600}
	off := offsets[int(verifSeed()%4)]
	if off != 0 {
		time.Local = time.FixedZone(fmt.Sprintf("verif%+d", off/60), off)
	}
}

// ---------------------------------------------------------------------------------------
// tiers, seeds, budgets

func tier() string {
	if os.Getenv("VERIF_TIER") == "thorough" {
		return "thorough"
	}
	return "quick"
}

func thorough() bool { return tier() == "thorough" }

func verifSeed() uint64 {
	s, err := strconv.ParseUint(os.Getenv("VERIF_SEED"), 10, 64)
	if err != nil {
		return 1
	}
	return s
}

// rapidSeed maps VERIF_SEED and the shard to a non-zero rapid PRNG value (0 means random to rapid).
func rapidSeed(salt uint64) uint64 {
	si, _ := evid.Shard()
	return (verifSeed()+1)*1000003 + uint64(si)*7919 + salt
}

func scale() float64 {
	if v, err := strconv.ParseFloat(os.Getenv("VERIF_SCALE"), 64); err == nil && v > 0 {
		return v
	}
	return 1
}

// pick returns the quick or thorough budget, scaled.
func pick(quick, thoroughN int) int {
	n := quick
	if thorough() {
		n = thoroughN
	}
	n = int(float64(n) * scale())
	if n < 1 {
		n = 1
	}
	return n
}

var rapidMu sync.Mutex

// runRapid runs prop under rapid.Check with the given number of checks and a seed derived from
// VERIF_SEED; rapid's own fail files are disabled (the recorder writes replay files).
func runRapid(t *testing.T, checks int, salt uint64, prop func(*rapid.T)) {
	t.Helper()
	if captureMode {
		captured = append(captured, prop)
		return
	}
	rapidMu.Lock()
	defer rapidMu.Unlock()
	flag.Set("rapid.checks", strconv.Itoa(checks))
	flag.Set("rapid.seed", strconv.FormatUint(rapidSeed(salt), 10))
	flag.Set("rapid.nofailfile", "true")
	if os.Getenv("VERIF_SHRINKTIME") != "" {
		flag.Set("rapid.shrinktime", os.Getenv("VERIF_SHRINKTIME"))
	} else {
		flag.Set("rapid.shrinktime", "15s")
	}
	rapid.Check(t, prop)
}

// ---------------------------------------------------------------------------------------
// coverage-guided search over the same generators (thorough tier): a native fuzz target per rapid property.
//
// fuzzRapid runs the Test function once in "capture mode" - runRapid then hands its property closure over instead of
// running it, finish / requireLabels do nothing - and feeds every fuzz input to that closure through rapid.MakeFuzz
// (the bytes become the generator's random draws, 8 bytes per draw; inputs that run out of bytes are skipped). The
// generated cases are therefore exactly the domain of the rapid test, the oracle is the same checkCNN, and a
// violation carries the replay kind and the case in its message (evid.FuzzMode).

var (
	captureMode bool
	captured    []func(*rapid.T)
)

func fuzzRapid(f *testing.F, test func(*testing.T), idx int) {
	// corpus: 48 seed words (content of the corpus, not a source of randomness of the check: the fuzzer mutates from
	// here and cannot be pinned to a seed anyway)
	x := uint64(0x9e3779b97f4a7c15)
	for k := 0; k < 48; k++ {
		x ^= x << 13
		x ^= x >> 7
		x ^= x << 17
		b := make([]byte, 8)
		binary.LittleEndian.PutUint64(b, x)
		f.Add(b)
	}
	var once sync.Once
	var prop func(*testing.T, []byte)
	f.Fuzz(func(t *testing.T, data []byte) {
		once.Do(func() {
			captureMode, evid.FuzzMode = true, true
			captured = nil
			test(t)
			if idx >= len(captured) {
				t.Fatalf("HARNESS-ERROR %d rapid properties captured, wanted index %d", len(captured), idx)
			}
			prop = rapid.MakeFuzz(captured[idx])
		})
		if len(data) > 1<<16 {
			t.Skip()
		}
		prop(t, expandDraws(data))
	})
}

const fuzzDraws = 16384

// expandDraws turns a fuzz input into the generator's draw sequence (8 bytes per draw): the first 8 bytes seed a
// fixed xorshift sequence of fuzzDraws words, and the rest of the input is XOR-ed over the front of it. Every input
// is therefore a complete case, a short input is a whole random case of its own (a mutated seed word is a new case),
// and a longer input edits single draws of the case its seed word stands for - which is what lets the fuzzer keep
// and refine the inputs that reached new code. A pure function of the input: a saved crasher replays.
func expandDraws(data []byte) []byte {
	var seed [8]byte
	copy(seed[:], data)
	x := binary.LittleEndian.Uint64(seed[:]) | 1
	out := make([]byte, 8*fuzzDraws)
	for i := 0; i < fuzzDraws; i++ {
		x ^= x << 13
		x ^= x >> 7
		x ^= x << 17
		binary.LittleEndian.PutUint64(out[8*i:], x*0x2545f4914f6cdd1d)
	}
	if len(data) > 8 {
		for i, b := range data[8:] {
			if i >= len(out) {
				break
			}
			out[i] ^= b
		}
	}
	return out
}

// ---------------------------------------------------------------------------------------
// panic capture

// guard runs f and converts a panic of the code under test into a failure signature
// "panic:<first frame inside the repository>". It is the only catch-all in the harness and it
// turns panics into failures, never into passes.
func guard(f func()) (fail *evid.Fail) {
	defer func() {
		if r := recover(); r != nil {
			if _, hang := r.(hangPanic); hang {
				fail = evid.F("nontermination:"+repoFrame(), "scanner-call budget exhausted: the tokenizer loops without consuming input")
				return
			}
			fail = evid.F("panic:"+repoFrame(), "panic: %v", r)
		}
	}()
	f()
	return nil
}

func repoFrame() string {
	pcs := make([]uintptr, 64)
	n := runtime.Callers(3, pcs)
	frames := runtime.CallersFrames(pcs[:n])
	for {
		fr, more := frames.Next()
		if strings.Contains(fr.Function, repoMod) {
			name := strings.TrimPrefix(fr.Function, repoMod)
			return name
		}
		if !more {
			break
		}
	}
	return "outside-repo"
}

// ---------------------------------------------------------------------------------------
// replay registry: kind -> function re-running one JSON case through the pure oracle

var replayers = map[string]func(raw json.RawMessage) *evid.Fail{}

func regReplay[T any](kind string, check func(T) *evid.Fail) {
	replayers[kind] = func(raw json.RawMessage) *evid.Fail {
		var c T
		if err := json.Unmarshal(raw, &c); err != nil {
			return evid.F("harness:bad-replay-file", "cannot decode case: %v", err)
		}
		return check(c)
	}
}

type replayFile struct {
	Property string          `json:"property"`
	Test     string          `json:"test"`
	Kind     string          `json:"kind"`
	Sig      string          `json:"sig"`
	Msg      string          `json:"msg"`
	Case     json.RawMessage `json:"case"`
}

// TestReplay re-runs $VERIF_REPLAY through the registered pure oracle (no rapid involved).
func TestReplay(t *testing.T) {
	path := os.Getenv("VERIF_REPLAY")
	if path == "" {
		t.Skip("no VERIF_REPLAY")
	}
	data, err := os.ReadFile(path)
	if err != nil {
		t.Fatalf("HARNESS-ERROR cannot read replay file: %v", err)
	}
	var rf replayFile
	if err := json.Unmarshal(data, &rf); err != nil {
		t.Fatalf("HARNESS-ERROR cannot decode replay file: %v", err)
	}
	fn := replayers[rf.Kind]
	if fn == nil {
		t.Fatalf("HARNESS-ERROR no replayer for kind %q", rf.Kind)
	}
	f := fn(rf.Case)
	if f == nil {
		fmt.Printf("REPLAY-PASS property=%s kind=%s\n", rf.Property, rf.Kind)
		return
	}
	if what, ok := evid.IsKnown(rf.Property, f.Sig); ok {
		fmt.Printf("KNOWN-FINDING: property=%s %s\n", rf.Property, what)
		return
	}
	fmt.Printf("REPLAY-FAIL property=%s sig=%s msg=%s\n", rf.Property, f.Sig, f.Msg)
	t.Fail()
}

// ---------------------------------------------------------------------------------------
// finishing a test: flush the evidence, fail on violations / vacuity

func finish(t *testing.T, rec *evid.Recorder) {
	t.Helper()
	if captureMode {
		return
	}
	rec.Flush()
	if v := rec.Violations(); len(v) > 0 {
		t.Errorf("%s: %d violation signature(s): %s", rec.Test, len(v), strings.Join(v, ", "))
	}
}

// requireLabels fails the run as vacuous (harness problem, exit 2 in the driver) when a class the
// design calls out was never generated.
func requireLabels(t *testing.T, rec *evid.Recorder, labels ...string) {
	t.Helper()
	if captureMode {
		return
	}
	var missing []string
	for _, l := range labels {
		if rec.LabelCount(l) == 0 {
			missing = append(missing, l)
		}
	}
	if len(missing) > 0 {
		sort.Strings(missing)
		rec.Note("VACUOUS: classes never generated: " + strings.Join(missing, ","))
		rec.Flush()
		t.Fatalf("HARNESS-ERROR vacuous run, classes never generated: %v", missing)
	}
}

// ---------------------------------------------------------------------------------------
// parallel deterministic enumeration

// parallelFor calls f(i) for i in [0,n) on all cores; f must be safe for concurrent use.
func parallelFor(n int, f func(i int)) {
	workers := runtime.GOMAXPROCS(0)
	if w, err := strconv.Atoi(os.Getenv("VERIF_WORKERS")); err == nil && w > 0 {
		workers = w
	}
	if workers > n {
		workers = n
	}
	if workers < 1 {
		workers = 1
	}
	var next int64 = -1
	var wg sync.WaitGroup
	for w := 0; w < workers; w++ {
		wg.Add(1)
		go func() {
			defer wg.Done()
			for {
				i := int(atomic.AddInt64(&next, 1))
				if i >= n {
					return
				}
				f(i)
			}
		}()
	}
	wg.Wait()
}

// enumStrings calls f for every string of length 1..maxLen over alphabet (as rune slices),
// prefix-partitioned over all cores. f gets a private copy.
func enumStrings(alphabet []string, maxLen int, includeEmpty bool, f func(parts []string)) {
	if includeEmpty {
		f(nil)
	}
	if maxLen < 1 {
		return
	}
	// partition on the first two symbols
	type pre struct{ a, b int }
	var prefixes []pre
	for a := range alphabet {
		prefixes = append(prefixes, pre{a, -1})
		if maxLen >= 2 {
			for b := range alphabet {
				prefixes = append(prefixes, pre{a, b})
			}
		}
	}
	parallelFor(len(prefixes), func(i int) {
		p := prefixes[i]
		if p.b < 0 {
			f([]string{alphabet[p.a]})
			return
		}
		cur := make([]string, 2, maxLen)
		cur[0], cur[1] = alphabet[p.a], alphabet[p.b]
		var rec func()
		rec = func() {
			cp := make([]string, len(cur))
			copy(cp, cur)
			f(cp)
			if len(cur) == maxLen {
				return
			}
			for _, s := range alphabet {
				cur = append(cur, s)
				rec()
				cur = cur[:len(cur)-1]
			}
		}
		rec()
	})
}

func jsonStr(v interface{}) string {
	b, _ := json.Marshal(v)
	return string(b)
}
