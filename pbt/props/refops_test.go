package props

import (
	"math"
	"time"

	cconv "github.com/pip-services3-gox/pip-services3-commons-gox/convert"
)

// Reference models of variant conversions (C07) and operators (C06), written from the statements as
// plain switches over a tagged value. Results are exact (a value), mustError, or free (the statements
// leave it open: only crash-freedom and "a success carries the requested type" are checked).

type refStatus int

const (
	refExact refStatus = iota
	refMustError
	refFree
)

func (s refStatus) String() string { return [...]string{"exact", "must-error", "unspecified"}[s] }

type refResult struct {
	St  refStatus
	V   val
	Alt []val  // other acceptable exact values (documented ambiguities)
	Why string // for free / mustError: the reason
}

func exact(v val) refResult        { return refResult{St: refExact, V: v} }
func mustErr(why string) refResult { return refResult{St: refMustError, Why: why} }
func freeRes(why string) refResult { return refResult{St: refFree, Why: why} }
func (v val) f64() float64         { return parseFloat(v.F) }
func (v val) f32() float32         { return float32(parseFloat(v.F)) }
func (v val) dur() time.Duration   { return time.Duration(v.I) }
func isNumericKind(k string) bool  { return k == "int" || k == "long" || k == "float" || k == "double" }
func inInt64Range(f float64) bool  { return f > -9.2e18 && f < 9.2e18 }

var allKinds = []string{"null", "int", "long", "float", "double", "string", "bool", "datetime", "timespan", "object", "array"}

func native(v val) interface{} {
	switch v.K {
	case "int":
		return int(v.I)
	case "long":
		return v.I
	case "float":
		return v.f32()
	case "double":
		return v.f64()
	case "string":
		return v.S
	case "bool":
		return v.I != 0
	case "timespan":
		return v.dur()
	case "datetime":
		return v.toTime()
	}
	return nil
}

// refConvert: what Convert(value, target) must deliver under the given manager.
func refConvert(v val, target string, safe bool) refResult {
	switch {
	case target == "null":
		return exact(vNull())
	case target == v.K || target == "object":
		return exact(v) // the unchanged value
	}
	if safe {
		switch v.K + ">" + target {
		case "int>long":
			return exact(vLong(v.I))
		case "int>float":
			return exact(vFloat(float32(int(v.I))))
		case "int>double":
			return exact(vDouble(float64(int(v.I))))
		case "long>float":
			return exact(vFloat(float32(v.I)))
		case "long>double":
			return exact(vDouble(float64(v.I)))
		case "float>double":
			return exact(vDouble(float64(v.f32())))
		}
		return mustErr("the type-safe manager permits only the numeric widenings")
	}
	// type-unsafe manager: the pairs the statement names are exact, scalars <-> strings go through the
	// commons converters (trusted dependency); every other pair is free to fail or succeed.
	switch v.K {
	case "int", "long":
		n := v.I
		switch target {
		case "int":
			return exact(vInt(int(n)))
		case "long":
			return exact(vLong(n))
		case "float":
			return exact(vFloat(float32(n)))
		case "double":
			return exact(vDouble(float64(n)))
		case "bool":
			return exact(vBool(n != 0))
		case "timespan":
			if n > math.MaxInt64/1000000 || n < math.MinInt64/1000000 {
				return freeRes("millisecond count overflows the duration")
			}
			return exact(vSpan(time.Duration(n) * time.Millisecond))
		case "datetime":
			if n > 1e11 || n < -1e11 {
				return freeRes("Unix seconds outside the exact range")
			}
			return exact(vTime(time.Unix(n, 0)))
		case "string":
			return exact(vString(cconv.StringConverter.ToString(native(v))))
		}
	case "float", "double":
		f := v.f64()
		switch target {
		case "int", "long":
			if math.IsNaN(f) || !inInt64Range(f) {
				return freeRes("float to integer outside the integer range is host-defined")
			}
			if target == "int" {
				return exact(vInt(int(math.Trunc(f))))
			}
			return exact(vLong(int64(math.Trunc(f))))
		case "float":
			return exact(vFloat(float32(f)))
		case "double":
			return exact(vDouble(f))
		case "bool":
			if math.IsNaN(f) {
				return freeRes("NaN to boolean")
			}
			return exact(vBool(f != 0))
		case "string":
			return exact(vString(cconv.StringConverter.ToString(native(v))))
		}
	case "bool":
		b := v.I
		switch target {
		case "int":
			return exact(vInt(int(b)))
		case "long":
			return exact(vLong(b))
		case "float":
			return exact(vFloat(float32(b)))
		case "double":
			return exact(vDouble(float64(b)))
		case "string":
			return exact(vString(cconv.StringConverter.ToString(v.I != 0)))
		}
	case "timespan":
		switch target {
		case "int":
			return exact(vInt(int(v.dur().Milliseconds())))
		case "long":
			return exact(vLong(v.dur().Milliseconds()))
		case "string":
			return exact(vString(cconv.StringConverter.ToString(v.dur())))
		}
	case "datetime":
		switch target {
		case "int":
			return exact(vInt(int(v.toTime().Unix())))
		case "long":
			return exact(vLong(v.toTime().Unix()))
		case "string":
			return exact(vString(cconv.StringConverter.ToString(v.toTime())))
		}
	case "string":
		switch target {
		case "int":
			return exact(vInt(cconv.IntegerConverter.ToInteger(v.S)))
		case "long":
			return exact(vLong(cconv.LongConverter.ToLong(v.S)))
		case "float":
			return exact(vFloat(cconv.FloatConverter.ToFloat(v.S)))
		case "double":
			return exact(vDouble(cconv.DoubleConverter.ToDouble(v.S)))
		case "bool":
			return exact(vBool(cconv.BooleanConverter.ToBoolean(v.S)))
		case "datetime":
			return exact(vTime(cconv.DateTimeConverter.ToDateTime(v.S)))
		case "timespan":
			return exact(vSpan(cconv.DurationConverter.ToDuration(v.S)))
		}
	}
	return freeRes("conversion " + v.K + " -> " + target + " is not named by the statement")
}

var refOperators = []string{"Add", "Sub", "Mul", "Div", "Mod", "Pow", "And", "Or", "Xor", "Lsh", "Rsh", "Not", "Negative",
	"Equal", "NotEqual", "More", "Less", "MoreEqual", "LessEqual", "In", "GetElement"}

func isUnary(op string) bool { return op == "Not" || op == "Negative" }

func refCompare(a, b val) (cmp int, ok bool, unordered bool) {
	switch a.K {
	case "int", "long", "timespan":
		switch {
		case a.I < b.I:
			return -1, true, false
		case a.I > b.I:
			return 1, true, false
		}
		return 0, true, false
	case "float":
		x, y := a.f32(), b.f32()
		switch {
		case x < y:
			return -1, true, false
		case x > y:
			return 1, true, false
		case x == y:
			return 0, true, false
		}
		return 0, true, true
	case "double":
		x, y := a.f64(), b.f64()
		switch {
		case x < y:
			return -1, true, false
		case x > y:
			return 1, true, false
		case x == y:
			return 0, true, false
		}
		return 0, true, true
	case "string":
		switch {
		case a.S < b.S:
			return -1, true, false
		case a.S > b.S:
			return 1, true, false
		}
		return 0, true, false
	case "datetime":
		x, y := a.toTime(), b.toTime()
		switch {
		case x.Before(y):
			return -1, true, false
		case x.After(y):
			return 1, true, false
		}
		return 0, true, false
	}
	return 0, false, false
}

// refOperator: what operator op must return for (a, b) under the manager.
func refOperator(op string, a, b val, safe bool) refResult {
	// Null handling
	switch op {
	case "Not":
		if a.K == "null" {
			return freeRes("NOT of Null is not fixed by the statement")
		}
	case "Negative":
		if a.K == "null" {
			return exact(vNull())
		}
	case "Equal", "NotEqual":
		if a.K == "null" || b.K == "null" {
			eq := a.K == "null" && b.K == "null"
			return exact(vBool(eq == (op == "Equal")))
		}
	default:
		if a.K == "null" || b.K == "null" {
			return exact(vNull())
		}
	}
	switch op {
	case "Not":
		switch a.K {
		case "int":
			return exact(vInt(^int(a.I)))
		case "long":
			return exact(vLong(^a.I))
		case "bool":
			return exact(vBool(a.I == 0))
		}
		return mustErr("NOT is undefined for " + a.K)
	case "Negative":
		switch a.K {
		case "int":
			return exact(vInt(-int(a.I)))
		case "long":
			return exact(vLong(-a.I))
		case "float":
			return exact(vFloat(-a.f32()))
		case "double":
			return exact(vDouble(-a.f64()))
		}
		return mustErr("unary minus is undefined for " + a.K)
	case "Lsh", "Rsh":
		c := refConvert(b, "int", safe)
		if c.St != refExact {
			return refResult{St: c.St, Why: "shift count: " + c.Why}
		}
		if a.K != "int" && a.K != "long" {
			return mustErr("shift is undefined for " + a.K)
		}
		n := c.V.I
		if n < 0 {
			return mustErr("negative shift count")
		}
		if n >= 64 {
			return freeRes("shift count >= 64 is host-defined")
		}
		var r int64
		if op == "Lsh" {
			r = a.I << uint(n)
		} else {
			r = a.I >> uint(n)
		}
		if a.K == "int" {
			return exact(vInt(int(r)))
		}
		return exact(vLong(r))
	case "GetElement":
		c := refConvert(b, "int", safe)
		if c.St != refExact {
			return refResult{St: c.St, Why: "index: " + c.Why}
		}
		i := c.V.I
		switch a.K {
		case "array":
			if i < 0 || i >= int64(len(a.A)) {
				return mustErr("index out of range")
			}
			return exact(a.A[i])
		case "string":
			rs := []rune(a.S)
			if i < 0 || i >= int64(len(rs)) {
				return mustErr("index out of range")
			}
			return exact(vString(string(rs[i])))
		}
		return mustErr("indexing is undefined for " + a.K)
	case "In":
		if a.K == "array" {
			uncertain := false
			for _, el := range a.A {
				r := refOperator("Equal", b, el, safe)
				switch r.St {
				case refExact:
					if r.V.I != 0 {
						if uncertain {
							return freeRes("an incomparable element precedes the match")
						}
						return exact(vBool(true))
					}
				default:
					uncertain = true
				}
			}
			if uncertain {
				return freeRes("an element cannot be compared with the value")
			}
			return exact(vBool(false))
		}
		return refOperator("Equal", a, b, safe)
	case "Pow":
		if !isNumericKind(a.K) {
			return mustErr("power is undefined for " + a.K)
		}
		base := refConvert(a, "double", safe)
		ex := refConvert(b, "double", safe)
		if base.St == refMustError || ex.St == refMustError {
			return mustErr("operand cannot be converted")
		}
		if base.St != refExact || ex.St != refExact {
			return freeRes("operand conversion unspecified")
		}
		res := refResult{St: refExact, V: vDouble(math.Pow(base.V.f64(), ex.V.f64())), Why: "pow"}
		// the statement also says "converts the second operand to the first operand's type": admit that reading
		if own := refConvert(b, a.K, safe); own.St == refExact {
			if d := refConvert(own.V, "double", false); d.St == refExact {
				res.Alt = append(res.Alt, vDouble(math.Pow(base.V.f64(), d.V.f64())))
			}
		}
		return res
	}
	// binary operators on the first operand's type
	c := refConvert(b, a.K, safe)
	if c.St != refExact {
		return refResult{St: c.St, Why: "second operand: " + c.Why}
	}
	b = c.V
	switch op {
	case "Add":
		switch a.K {
		case "int":
			return exact(vInt(int(a.I) + int(b.I)))
		case "long":
			return exact(vLong(a.I + b.I))
		case "float":
			return exact(vFloat(a.f32() + b.f32()))
		case "double":
			return exact(vDouble(a.f64() + b.f64()))
		case "timespan":
			return exact(vSpan(a.dur() + b.dur()))
		case "string":
			return exact(vString(a.S + b.S))
		}
	case "Sub":
		switch a.K {
		case "int":
			return exact(vInt(int(a.I) - int(b.I)))
		case "long":
			return exact(vLong(a.I - b.I))
		case "float":
			return exact(vFloat(a.f32() - b.f32()))
		case "double":
			return exact(vDouble(a.f64() - b.f64()))
		case "timespan":
			return exact(vSpan(a.dur() - b.dur()))
		case "datetime":
			return exact(vSpan(a.toTime().Sub(b.toTime())))
		}
	case "Mul":
		switch a.K {
		case "int":
			return exact(vInt(int(a.I) * int(b.I)))
		case "long":
			return exact(vLong(a.I * b.I))
		case "float":
			return exact(vFloat(a.f32() * b.f32()))
		case "double":
			return exact(vDouble(a.f64() * b.f64()))
		}
	case "Div":
		switch a.K {
		case "int", "long":
			if b.I == 0 {
				return mustErr("integer division by zero")
			}
			if a.K == "int" {
				return exact(vInt(int(a.I) / int(b.I)))
			}
			return exact(vLong(a.I / b.I))
		case "float":
			return exact(vFloat(a.f32() / b.f32()))
		case "double":
			return exact(vDouble(a.f64() / b.f64()))
		}
	case "Mod":
		switch a.K {
		case "int", "long":
			if b.I == 0 {
				return mustErr("integer remainder by zero")
			}
			if a.K == "int" {
				return exact(vInt(int(a.I) % int(b.I)))
			}
			return exact(vLong(a.I % b.I))
		}
	case "And", "Or", "Xor":
		f := map[string]func(x, y int64) int64{
			"And": func(x, y int64) int64 { return x & y }, "Or": func(x, y int64) int64 { return x | y }, "Xor": func(x, y int64) int64 { return x ^ y }}[op]
		switch a.K {
		case "int":
			return exact(vInt(int(f(a.I, b.I))))
		case "long":
			return exact(vLong(f(a.I, b.I)))
		case "bool":
			return exact(vBool(f(a.I, b.I) != 0))
		}
	case "Equal", "NotEqual":
		if a.K == "bool" {
			return exact(vBool((a.I == b.I) == (op == "Equal")))
		}
		if a.K == "object" || a.K == "array" {
			return freeRes("equality of " + a.K + " values is not fixed by the statement")
		}
		if cmp, ok, unordered := refCompare(a, b); ok {
			eq := cmp == 0 && !unordered
			return exact(vBool(eq == (op == "Equal")))
		}
	case "More", "Less", "MoreEqual", "LessEqual":
		if cmp, ok, unordered := refCompare(a, b); ok {
			if unordered {
				return exact(vBool(false))
			}
			switch op {
			case "More":
				return exact(vBool(cmp > 0))
			case "Less":
				return exact(vBool(cmp < 0))
			case "MoreEqual":
				return exact(vBool(cmp >= 0))
			default:
				return exact(vBool(cmp <= 0))
			}
		}
	}
	return mustErr(op + " is undefined for " + a.K)
}

// ---------------------------------------------------------------------------------------
// the shared value pool: boundary values of every variant type

func valuePool() []val {
	mn, mx := int64(math.MinInt64), int64(math.MaxInt64)
	local := time.Date(2021, 3, 4, 5, 6, 7, 0, time.Local)
	p := []val{
		vNull(),
		vInt(0), vInt(1), vInt(-1), vInt(2), vInt(-2), vInt(7), vInt(63), vInt(64), vInt(16777217), vInt(-2147483648), vInt(9007199254740993), vInt(int(mx)), vInt(int(mn)),
		vLong(1152921573326323713), vLong(-1152921573326323713), vInt(36028799166447617), vLong(16777217), vLong(33554435),
		vLong(0), vLong(1), vLong(-1), vLong(3), vLong(64), vLong(2147483648), vLong(-9007199254740993), vLong(mx), vLong(mn), vLong(-9223372036854775807),
		vFloat(0), vFloat(float32(math.Copysign(0, -1))), vFloat(1), vFloat(0.5), vFloat(1.5), vFloat(2.5), vFloat(-2.5), vFloat(1e-3), vFloat(1e10), vFloat(16777216), vFloat(math.MaxFloat32), vFloat(math.SmallestNonzeroFloat32), vFloat(float32(math.Inf(1))), vFloat(float32(math.NaN())),
		vDouble(0), vDouble(math.Copysign(0, -1)), vDouble(1), vDouble(-1), vDouble(0.5), vDouble(1.5), vDouble(2.5), vDouble(-2.5), vDouble(1e-3), vDouble(1e10), vDouble(9007199254740992), vDouble(math.MaxFloat64), vDouble(math.SmallestNonzeroFloat64), vDouble(math.Inf(1)), vDouble(math.Inf(-1)), vDouble(math.NaN()),
		vString(""), vString("0"), vString("1"), vString("12"), vString("-3"), vString("1.5"), vString("abc"), vString("true"), vString("false"), vString(" "), vString("é"), vString("中文"), vString("😀"), vString("Ａ"), vString("\ue000z"), vString("𝑥"), vString("a'b"), vString("2020-01-02T03:04:05Z"), vString("1e3"), vString("a\u00a0b"),
		vBool(true), vBool(false),
		vSpan(0), vSpan(time.Millisecond), vSpan(-time.Millisecond), vSpan(time.Second), vSpan(36 * time.Hour), vSpan(1), vSpan(time.Duration(1<<43) * time.Millisecond),
		vTime(time.Time{}), vTime(time.Unix(0, 0).UTC()), vTime(time.Unix(1, 0).UTC()), vTime(time.Date(2020, 2, 29, 12, 0, 0, 0, time.UTC)), vTime(local), vTime(time.Unix(1600000000, 123456789).UTC()),
		vDouble(0.3), vDouble(0.1 + 0.2), vDouble(math.Nextafter(1, 2)), vDouble(math.Nextafter(1e10, 0)), vFloat(math.Nextafter32(1, 2)), vFloat(math.Nextafter32(0.5, 0)),
		vTime(time.Date(2020, 2, 29, 12, 0, 0, 0, time.UTC).In(east3)), vTime(time.Date(2024, 1, 1, 1, 30, 0, 0, east3)), vLong(1582977600), vInt(1582977600), vTime(time.Unix(1600000000, 0).UTC()), vLong(1600000000),
		vArray(), vArray(vInt(1)), vArray(vInt(1), vString("a"), vNull()), vArray(vArray(vInt(1)), vArray(vInt(2))), vArray(vInt(0), vInt(1), vInt(2), vInt(3), vString("4"), vDouble(5), vBool(true), vNull()),
	}
	return p
}
