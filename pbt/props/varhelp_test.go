package props

import (
	"fmt"
	"math"
	"strings"
	"time"
	"verif/pbt/evid"

	"github.com/pip-services3-gox/pip-services3-expressions-gox/calculator/variables"
	"github.com/pip-services3-gox/pip-services3-expressions-gox/variants"
)

// ---------------------------------------------------------------------------------------
// JSON-serialisable value description (so that whole cases can be written to replay files)

// val describes a variant value: K is the kind, the other fields carry the payload.
type val struct {
	K string `json:"k"`           // null int long float double string bool timespan datetime array object
	I int64  `json:"i,omitempty"` // int, long, timespan (ns), datetime (unix seconds), bool (0/1)
	N int64  `json:"n,omitempty"` // datetime: nanoseconds within the second
	F string `json:"f,omitempty"` // float, double as %b text (exact, NaN/Inf safe)
	S string `json:"s,omitempty"`
	A []val  `json:"a,omitempty"`
	Z string `json:"z,omitempty"` // datetime: "utc" | "local" | "zero"
	// no direct float fields: JSON cannot carry NaN/Inf
}

func fmtFloat(f float64) string {
	switch {
	case math.IsNaN(f):
		return "NaN"
	case math.IsInf(f, 1):
		return "+Inf"
	case math.IsInf(f, -1):
		return "-Inf"
	case f == 0 && math.Signbit(f):
		return "-0"
	}
	return fmt.Sprintf("%x", math.Float64bits(f))
}

func parseFloat(s string) float64 {
	switch s {
	case "NaN":
		return math.NaN()
	case "+Inf":
		return math.Inf(1)
	case "-Inf":
		return math.Inf(-1)
	case "-0":
		return math.Copysign(0, -1)
	case "":
		return 0
	}
	var bits uint64
	fmt.Sscanf(s, "%x", &bits)
	return math.Float64frombits(bits)
}

func vNull() val                { return val{K: "null"} }
func vInt(i int) val            { return val{K: "int", I: int64(i)} }
func vLong(i int64) val         { return val{K: "long", I: i} }
func vFloat(f float32) val      { return val{K: "float", F: fmtFloat(float64(f))} }
func vDouble(f float64) val     { return val{K: "double", F: fmtFloat(f)} }
func vString(s string) val      { return val{K: "string", S: s} }
func vBool(b bool) val          { return val{K: "bool", I: b2i(b)} }
func vSpan(d time.Duration) val { return val{K: "timespan", I: int64(d)} }
func vArray(a ...val) val       { return val{K: "array", A: append([]val{}, a...)} }
func vTime(t time.Time) val {
	if t.IsZero() && t.Location() == time.UTC {
		// the zero value of time.Time; the same instant in another zone is described like any other time (its text differs)
		return val{K: "datetime", Z: "zero"}
	}
	z := "utc"
	if t.Location() == time.Local {
		z = "local"
	} else if _, off := t.Zone(); off == 3*3600 {
		z = "east3"
	}
	return val{K: "datetime", I: t.Unix(), N: int64(t.Nanosecond()), Z: z}
}

func b2i(b bool) int64 {
	if b {
		return 1
	}
	return 0
}

type objPayload struct{ Name string }

var east3 = time.FixedZone("east3", 3*3600)

// toVariant builds a fresh library variant from the description.
func (v val) toVariant() *variants.Variant {
	switch v.K {
	case "null":
		return variants.EmptyVariant()
	case "int":
		return variants.VariantFromInteger(int(v.I))
	case "long":
		return variants.VariantFromLong(v.I)
	case "float":
		return variants.VariantFromFloat(float32(parseFloat(v.F)))
	case "double":
		return variants.VariantFromDouble(parseFloat(v.F))
	case "string":
		return variants.VariantFromString(v.S)
	case "bool":
		return variants.VariantFromBoolean(v.I != 0)
	case "timespan":
		return variants.VariantFromTimeSpan(time.Duration(v.I))
	case "datetime":
		return variants.VariantFromDateTime(v.toTime())
	case "array":
		els := make([]*variants.Variant, len(v.A))
		for i, e := range v.A {
			els[i] = e.toVariant()
		}
		return variants.VariantFromArray(els)
	case "object":
		return variants.VariantFromObject(objPayload{v.S})
	}
	panic("bad val kind " + v.K)
}

// toHostVariant builds the same value through the host-value constructor (NewVariant / VariantFromObject), using
// every Go type the constructor maps to the value's variant type (int / int32 / uint / uint32 / int64 ...).
func (v val) toHostVariant(pick int) *variants.Variant {
	var host interface{}
	switch v.K {
	case "null":
		if pick%3 == 1 {
			return new(variants.Variant) // the zero value of the type is a Null variant like any other
		}
		host = nil
	case "int":
		switch {
		case pick%3 == 1 && v.I >= math.MinInt32 && v.I <= math.MaxInt32:
			host = int32(v.I)
		default:
			host = int(v.I)
		}
	case "long":
		switch {
		case pick%3 == 1 && v.I >= 0 && v.I <= math.MaxUint32:
			host = uint32(v.I)
		case pick%3 == 2 && v.I >= 0:
			host = uint(v.I)
		default:
			host = v.I
		}
	case "float":
		host = float32(parseFloat(v.F))
	case "double":
		host = parseFloat(v.F)
	case "string":
		host = v.S
	case "bool":
		host = v.I != 0
	case "timespan":
		host = time.Duration(v.I)
	case "datetime":
		host = v.toTime()
	case "array":
		els := make([]*variants.Variant, len(v.A))
		for i, e := range v.A {
			els[i] = e.toHostVariant(pick + i + 1)
		}
		host = els
	default:
		return v.toVariant()
	}
	if pick%2 == 0 {
		return variants.NewVariant(host)
	}
	return variants.VariantFromObject(host)
}

func (v val) toTime() time.Time {
	switch v.Z {
	case "zero":
		return time.Time{}
	case "local":
		return time.Unix(v.I, v.N)
	case "east3":
		return time.Unix(v.I, v.N).In(east3)
	}
	return time.Unix(v.I, v.N).UTC()
}

func (v val) String() string {
	switch v.K {
	case "null":
		return "null"
	case "int", "long":
		return fmt.Sprintf("%s(%d)", v.K, v.I)
	case "float":
		return fmt.Sprintf("float(%v)", float32(parseFloat(v.F)))
	case "double":
		return fmt.Sprintf("double(%v)", parseFloat(v.F))
	case "string":
		return fmt.Sprintf("string(%q)", v.S)
	case "bool":
		return fmt.Sprintf("bool(%v)", v.I != 0)
	case "timespan":
		return fmt.Sprintf("timespan(%v)", time.Duration(v.I))
	case "datetime":
		return fmt.Sprintf("datetime(%v)", v.toTime().Format(time.RFC3339Nano))
	case "array":
		parts := make([]string, len(v.A))
		for i, e := range v.A {
			parts[i] = e.String()
		}
		return "[" + strings.Join(parts, ", ") + "]"
	case "object":
		return "object(" + v.S + ")"
	}
	return "?" + v.K
}

var variantTypeNames = []string{"Null", "Integer", "Long", "Float", "Double", "String", "Boolean", "DateTime", "TimeSpan", "Object", "Array"}

func vtName(t variants.VariantType) string {
	if int(t) >= 0 && int(t) < len(variantTypeNames) {
		return variantTypeNames[t]
	}
	return fmt.Sprintf("Type%d", int(t))
}

// fromVariant describes a library variant (deep). It never panics on well-typed variants; a variant whose
// payload does not match its type tag is described as kind "corrupt".
func fromVariant(v *variants.Variant) (out val) {
	if v == nil {
		return val{K: "nil-pointer"}
	}
	defer func() {
		if r := recover(); r != nil {
			out = val{K: "corrupt", S: fmt.Sprintf("type %s payload %T", vtName(v.Type()), v.AsObject())}
		}
	}()
	switch v.Type() {
	case variants.Null:
		if v.AsObject() != nil {
			return val{K: "corrupt", S: fmt.Sprintf("Null with payload %T", v.AsObject())}
		}
		return vNull()
	case variants.Integer:
		return vInt(v.AsInteger())
	case variants.Long:
		return vLong(v.AsLong())
	case variants.Float:
		return vFloat(v.AsFloat())
	case variants.Double:
		return vDouble(v.AsDouble())
	case variants.String:
		return vString(v.AsString())
	case variants.Boolean:
		return vBool(v.AsBoolean())
	case variants.TimeSpan:
		return vSpan(v.AsTimeSpan())
	case variants.DateTime:
		t := v.AsDateTime()
		d := vTime(t)
		return d
	case variants.Array:
		a := v.AsArray()
		if a == nil {
			return val{K: "corrupt", S: "Array without slice payload"}
		}
		out := val{K: "array", A: make([]val, len(a))}
		for i, e := range a {
			out.A[i] = fromVariant(e)
		}
		return out
	case variants.Object:
		if p, ok := v.AsObject().(objPayload); ok {
			return val{K: "object", S: p.Name}
		}
		return val{K: "object", S: fmt.Sprintf("%T", v.AsObject())}
	}
	return val{K: "corrupt", S: fmt.Sprintf("unknown type %d", int(v.Type()))}
}

// equalVal compares two descriptions; NaN equals NaN here (we compare representations, not arithmetic).
func equalVal(a, b val) bool {
	if a.K != b.K || a.I != b.I || a.N != b.N || a.F != b.F || a.S != b.S || len(a.A) != len(b.A) {
		return false
	}
	if a.K == "datetime" && a.Z != b.Z && (a.Z == "zero" || b.Z == "zero") {
		return false
	}
	for i := range a.A {
		if !equalVal(a.A[i], b.A[i]) {
			return false
		}
	}
	return true
}

// resultRepr renders (variant, error) of an evaluating call for differential comparison.
func resultRepr(v *variants.Variant, err error) string {
	if err != nil {
		if v != nil {
			return "BOTH(" + fromVariant(v).String() + ", " + err.Error() + ")"
		}
		return "error: " + err.Error()
	}
	if v == nil {
		return "NEITHER"
	}
	return fromVariant(v).String()
}

// named assignment of values to variables
type binding struct {
	Name string `json:"name"`
	V    val    `json:"v"`
}

func makeVars(bs []binding) *variables.VariableCollection {
	vc := variables.NewVariableCollection()
	for _, b := range bs {
		vc.Add(variables.NewVariable(b.Name, b.V.toVariant()))
	}
	return vc
}

func time64(ns int64) time.Duration { return time.Duration(ns) }

func unixUTC(sec, nsec int64) time.Time { return time.Unix(sec, nsec).UTC() }

var _ = math.Pi

// aliasProbe: a returned value belongs to the caller. Writing into it must not change what the same call returns
// next time, nor the library's shared Null constant (a result that *is* one of the arguments is left alone).
func aliasProbe(v *variants.Variant, args []*variants.Variant, again func() (*variants.Variant, error, *evid.Fail)) *evid.Fail {
	if v == nil {
		return nil
	}
	var within func(a *variants.Variant) bool
	within = func(a *variants.Variant) bool {
		if a == v {
			return true
		}
		if a != nil && a.Type() == variants.Array {
			for _, e := range a.AsArray() {
				if within(e) {
					return true
				}
			}
		}
		return false
	}
	for _, a := range args {
		if within(a) {
			return nil // an argument handed back (or an element of an array argument: indexing returns the element itself)
		}
	}
	first := fromVariant(v).String()
	v.SetAsString("changed by the caller")
	if !variants.Empty.IsNull() {
		variants.Empty.Clear() // repaired for the cases that follow
		return evid.F("result-aliased:shared-null-constant", "the returned value is the shared variants.Empty object: writing into the result turned the library's Null constant into a String")
	}
	v2, err2, bad := again()
	if bad != nil || err2 != nil || v2 == nil {
		return nil
	}
	if second := fromVariant(v2).String(); second != first {
		return evid.F("result-aliased", "the first call returned %s; after the caller wrote into that result the same call returns %s", first, second)
	}
	return nil
}
