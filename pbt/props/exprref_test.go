package props

import (
	"fmt"
	"strings"

	cconv "github.com/pip-services3-gox/pip-services3-commons-gox/convert"
	cparsers "github.com/pip-services3-gox/pip-services3-expressions-gox/calculator/parsers"
)

// Reference expression grammar, written from the statements of C01/C02 (a table-driven parser over
// token lists, independent of the library's seven mutually recursive functions):
//
//   expr  := not  { (AND|OR|XOR) not }                                              level 0, left-assoc
//   not   := [NOT] cmp                                                              level 1, at most one NOT
//   cmp   := add  { (= | <> | != | > | < | >= | <=) add }                           level 2
//   add   := mul  { (+|-|LIKE) mul | NOT LIKE mul | IS NULL | IS NOT NULL | NOT IN mul }   level 3
//   mul   := pow  { (*|/|%) pow }                                                   level 4
//   pow   := unary{ (^|IN|<<|>>) unary }                                            level 5
//   unary := [+|-] primary [ '[' expr ']' ]                                         sign binds before index
//   primary := constant | identifier | '(' expr ')' | identifier '(' [ expr {',' expr} ] ')'

// etok is a token of the expression language. K: "c" constant, "i" identifier, "o" operator / keyword /
// punctuation (S in canonical upper case; "<>" also stands for "!=").
type etok struct {
	K string `json:"k"`
	S string `json:"s"` // source spelling for constants and identifiers, canonical text for operators
}

func (t etok) String() string { return t.S }

type node struct {
	Op   string  `json:"op"` // const var call neg pos index not isnull isnotnull | binary operator text
	Kids []*node `json:"kids,omitempty"`
	Tok  string  `json:"tok,omitempty"` // const: source literal; var/call: name
	Par  int     `json:"par,omitempty"` // generator hint: redundant parentheses around this node
}

var binLevel = map[string]int{
	"AND": 0, "OR": 0, "XOR": 0,
	"=": 2, "<>": 2, ">": 2, "<": 2, ">=": 2, "<=": 2,
	"+": 3, "-": 3, "LIKE": 3, "NOTLIKE": 3, "NOTIN": 3,
	"*": 4, "/": 4, "%": 4,
	"^": 5, "IN": 5, "<<": 5, ">>": 5,
}

// level of a node as an operand: 8 primary, 7 signed primary, 6 indexed, else the operator's level.
func (n *node) level() int {
	if n.Par > 0 {
		return 8
	}
	switch n.Op {
	case "const", "var", "call":
		return 8
	case "neg", "pos":
		return 7
	case "index":
		return 6
	case "not":
		return 1
	case "isnull", "isnotnull":
		return 3
	}
	return binLevel[n.Op]
}

type eparser struct {
	toks []etok
	i    int
	fail int // index of the offending token (len(toks) = unexpected end), -1 none
}

func (p *eparser) peek(k int) string {
	if p.i+k < len(p.toks) && p.toks[p.i+k].K == "o" {
		return p.toks[p.i+k].S
	}
	return ""
}

func (p *eparser) err() *node {
	if p.fail < 0 {
		p.fail = p.i
	}
	return nil
}

// refParse returns the syntax tree, or nil and the index of the first token that cannot continue a sentence.
func refParse(toks []etok) (*node, int) {
	p := &eparser{toks: toks, fail: -1}
	n := p.expr()
	if n == nil {
		return nil, p.fail
	}
	if p.i != len(toks) {
		return nil, p.i
	}
	return n, -1
}

func (p *eparser) expr() *node {
	l := p.not()
	if l == nil {
		return nil
	}
	for {
		op := p.peek(0)
		if op != "AND" && op != "OR" && op != "XOR" {
			return l
		}
		p.i++
		r := p.not()
		if r == nil {
			return nil
		}
		l = &node{Op: op, Kids: []*node{l, r}}
	}
}

func (p *eparser) not() *node {
	if p.peek(0) == "NOT" {
		p.i++
		c := p.cmp()
		if c == nil {
			return nil
		}
		return &node{Op: "not", Kids: []*node{c}}
	}
	return p.cmp()
}

func (p *eparser) cmp() *node {
	l := p.add()
	if l == nil {
		return nil
	}
	for {
		op := p.peek(0)
		if lv, ok := binLevel[op]; !ok || lv != 2 {
			return l
		}
		p.i++
		r := p.add()
		if r == nil {
			return nil
		}
		l = &node{Op: op, Kids: []*node{l, r}}
	}
}

func (p *eparser) add() *node {
	l := p.mul()
	if l == nil {
		return nil
	}
	for {
		a, b, c := p.peek(0), p.peek(1), p.peek(2)
		var op string
		n := 0
		postfix := false
		switch {
		case a == "+" || a == "-" || a == "LIKE":
			op, n = a, 1
		case a == "NOT" && b == "LIKE":
			op, n = "NOTLIKE", 2
		case a == "NOT" && b == "IN":
			op, n = "NOTIN", 2
		case a == "IS" && b == "NULL":
			op, n, postfix = "isnull", 2, true
		case a == "IS" && b == "NOT" && c == "NULL":
			op, n, postfix = "isnotnull", 3, true
		default:
			return l
		}
		p.i += n
		if postfix {
			l = &node{Op: op, Kids: []*node{l}}
			continue
		}
		r := p.mul()
		if r == nil {
			return nil
		}
		l = &node{Op: op, Kids: []*node{l, r}}
	}
}

func (p *eparser) mul() *node {
	l := p.pow()
	if l == nil {
		return nil
	}
	for {
		op := p.peek(0)
		if op != "*" && op != "/" && op != "%" {
			return l
		}
		p.i++
		r := p.pow()
		if r == nil {
			return nil
		}
		l = &node{Op: op, Kids: []*node{l, r}}
	}
}

func (p *eparser) pow() *node {
	l := p.unary()
	if l == nil {
		return nil
	}
	for {
		op := p.peek(0)
		if op != "^" && op != "IN" && op != "<<" && op != ">>" {
			return l
		}
		p.i++
		r := p.unary()
		if r == nil {
			return nil
		}
		l = &node{Op: op, Kids: []*node{l, r}}
	}
}

func (p *eparser) unary() *node {
	sign := ""
	if s := p.peek(0); s == "+" || s == "-" {
		sign = s
		p.i++
	}
	if p.i >= len(p.toks) {
		return p.err()
	}
	t := p.toks[p.i]
	var n *node
	switch {
	case t.K == "c":
		p.i++
		n = &node{Op: "const", Tok: t.S}
	case t.K == "i" && p.peek(1) == "(":
		p.i += 2
		n = &node{Op: "call", Tok: t.S}
		if p.peek(0) == ")" {
			p.i++
		} else {
			for {
				a := p.expr()
				if a == nil {
					return nil
				}
				n.Kids = append(n.Kids, a)
				if p.peek(0) == "," {
					p.i++
					continue
				}
				if p.peek(0) == ")" {
					p.i++
					break
				}
				return p.err()
			}
		}
	case t.K == "i":
		p.i++
		n = &node{Op: "var", Tok: t.S}
	case t.K == "o" && t.S == "(":
		p.i++
		in := p.expr()
		if in == nil {
			return nil
		}
		if p.peek(0) != ")" {
			return p.err()
		}
		p.i++
		in.Par++
		n = in
	default:
		return p.err()
	}
	if sign == "-" {
		n = &node{Op: "neg", Kids: []*node{n}}
	} else if sign == "+" {
		n = &node{Op: "pos", Kids: []*node{n}}
	}
	if p.peek(0) == "[" {
		p.i++
		ix := p.expr()
		if ix == nil {
			return nil
		}
		if p.peek(0) != "]" {
			return p.err()
		}
		p.i++
		n = &node{Op: "index", Kids: []*node{n, ix}}
	}
	return n
}

// ---------------------------------------------------------------------------------------
// post-order (what the parser must compile to)

type rpn struct {
	T    int    // library ExpressionTokenType
	Text string // constants: literal source / "#n" for an argument count; variables & functions: name
}

func (r rpn) String() string {
	if r.Text != "" {
		return fmt.Sprintf("%s(%s)", exprTypeName(r.T), r.Text)
	}
	return exprTypeName(r.T)
}

var exprTypeNames = map[int]string{
	cparsers.Unknown: "Unknown", cparsers.LeftBrace: "(", cparsers.RightBrace: ")", cparsers.LeftSquareBrace: "[", cparsers.RightSquareBrace: "]",
	cparsers.Plus: "Plus", cparsers.Minus: "Minus", cparsers.Star: "Star", cparsers.Slash: "Slash", cparsers.Procent: "Procent", cparsers.Power: "Power",
	cparsers.Equal: "Equal", cparsers.NotEqual: "NotEqual", cparsers.More: "More", cparsers.Less: "Less", cparsers.EqualMore: "EqualMore", cparsers.EqualLess: "EqualLess",
	cparsers.ShiftLeft: "ShiftLeft", cparsers.ShiftRight: "ShiftRight", cparsers.And: "And", cparsers.Or: "Or", cparsers.Xor: "Xor", cparsers.Is: "Is", cparsers.In: "In",
	cparsers.NotIn: "NotIn", cparsers.Element: "Element", cparsers.Null: "Null", cparsers.Not: "Not", cparsers.Like: "Like", cparsers.NotLike: "NotLike",
	cparsers.IsNull: "IsNull", cparsers.IsNotNull: "IsNotNull", cparsers.Comma: "Comma", cparsers.Unary: "Unary", cparsers.Function: "Function",
	cparsers.Variable: "Variable", cparsers.Constant: "Constant",
}

func exprTypeName(t int) string {
	if n, ok := exprTypeNames[t]; ok {
		return n
	}
	return fmt.Sprintf("Type%d", t)
}

var opTokenType = map[string]int{
	"AND": cparsers.And, "OR": cparsers.Or, "XOR": cparsers.Xor, "not": cparsers.Not,
	"=": cparsers.Equal, "<>": cparsers.NotEqual, ">": cparsers.More, "<": cparsers.Less, ">=": cparsers.EqualMore, "<=": cparsers.EqualLess,
	"+": cparsers.Plus, "-": cparsers.Minus, "LIKE": cparsers.Like, "NOTLIKE": cparsers.NotLike, "NOTIN": cparsers.NotIn,
	"isnull": cparsers.IsNull, "isnotnull": cparsers.IsNotNull,
	"*": cparsers.Star, "/": cparsers.Slash, "%": cparsers.Procent,
	"^": cparsers.Power, "IN": cparsers.In, "<<": cparsers.ShiftLeft, ">>": cparsers.ShiftRight,
	"neg": cparsers.Unary, "index": cparsers.Element,
}

func postOrder(n *node, out []rpn) []rpn {
	switch n.Op {
	case "const":
		return append(out, rpn{cparsers.Constant, n.Tok})
	case "var":
		return append(out, rpn{cparsers.Variable, n.Tok})
	case "call":
		for _, k := range n.Kids {
			out = postOrder(k, out)
		}
		out = append(out, rpn{cparsers.Constant, fmt.Sprintf("#%d", len(n.Kids))})
		return append(out, rpn{cparsers.Function, n.Tok})
	case "pos":
		return postOrder(n.Kids[0], out)
	}
	for _, k := range n.Kids {
		out = postOrder(k, out)
	}
	return append(out, rpn{opTokenType[n.Op], ""})
}

// literalVal is the value a constant token stands for (scalar parsing is delegated to the commons
// converters, a trusted dependency, exactly as documented for the language).
func literalVal(src string) val {
	switch {
	case strings.EqualFold(src, "TRUE"):
		return vBool(true)
	case strings.EqualFold(src, "FALSE"):
		return vBool(false)
	case strings.HasPrefix(src, "'"):
		body := src[1 : len(src)-1]
		return vString(strings.ReplaceAll(body, "''", "'"))
	case strings.ContainsAny(src, ".eE"):
		return vFloat(cconv.FloatConverter.ToFloat(src))
	}
	return vInt(cconv.IntegerConverter.ToInteger(src))
}

// identName is the name an identifier token denotes ("quoted ""id""" decodes like a string).
func identName(src string) string {
	if strings.HasPrefix(src, "\"") && len(src) >= 2 {
		return strings.ReplaceAll(src[1:len(src)-1], "\"\"", "\"")
	}
	return src
}

// actualRPN renders the library's ResultTokens in the same vocabulary.
func actualRPN(ts []*cparsers.ExpressionToken) []string {
	out := make([]string, len(ts))
	for i, t := range ts {
		switch t.Type() {
		case cparsers.Constant, cparsers.Variable, cparsers.Function:
			out[i] = fmt.Sprintf("%s(%s)", exprTypeName(t.Type()), fromVariant(t.Value()).String())
		default:
			out[i] = exprTypeName(t.Type())
		}
	}
	return out
}

// expectedRPN renders the reference post-order with constant values / names resolved.
func expectedRPN(rs []rpn) []string {
	out := make([]string, len(rs))
	for i, r := range rs {
		switch r.T {
		case cparsers.Constant:
			if strings.HasPrefix(r.Text, "#") {
				var n int
				fmt.Sscanf(r.Text, "#%d", &n)
				out[i] = fmt.Sprintf("Constant(%s)", vInt(n).String())
			} else {
				out[i] = fmt.Sprintf("Constant(%s)", literalVal(r.Text).String())
			}
		case cparsers.Variable, cparsers.Function:
			out[i] = fmt.Sprintf("%s(%s)", exprTypeName(r.T), vString(identName(r.Text)).String())
		default:
			out[i] = exprTypeName(r.T)
		}
	}
	return out
}

// ---------------------------------------------------------------------------------------
// tokens <-> source text

// spell writes a token; operators/keywords in canonical form (letter case and the <> / != choice are
// varied by the printers that want it).
func joinTokens(toks []etok) string {
	parts := make([]string, len(toks))
	for i, t := range toks {
		parts[i] = t.S
	}
	return strings.Join(parts, " ")
}
