package props

import (
	"fmt"
	"strings"
	"sync"

	ctok "github.com/pip-services3-gox/pip-services3-expressions-gox/calculator/tokenizers"
	"github.com/pip-services3-gox/pip-services3-expressions-gox/csv"
	rio "github.com/pip-services3-gox/pip-services3-expressions-gox/io"
	mtok "github.com/pip-services3-gox/pip-services3-expressions-gox/mustache/tokenizers"
	"github.com/pip-services3-gox/pip-services3-expressions-gox/tokenizers"
	"github.com/pip-services3-gox/pip-services3-expressions-gox/tokenizers/generic"
	"verif/pbt/evid"
)

var tokKinds = []string{"generic", "expression", "csv", "mustache"}

// tokKindsExt adds tokenizers that carry a user configuration built from the library's own states:
//
//	generic+sym     extra symbols whose proper prefixes are not registered ("...", "=:~", "-->", "::=", "≠≠")
//	expression+cpp  the expression tokenizer with the C++ comment state plugged in for '/'
//	generic+ws      '\n' and U+3000..U+303F taken out of the blank / word characters and mapped to the symbol state
//	csv+cfg         non-Latin separators and quotes, configured quotes-first
var tokKindsExt = []string{"generic", "expression", "csv", "mustache", "generic+sym", "expression+cpp", "generic+ws", "csv+cfg"}

// option bits
const (
	optSkipUnknown = 1 << iota
	optSkipWhitespaces
	optSkipComments
	optSkipEof
	optMergeWhitespaces
	optUnifyNumbers
	optDecodeStrings
	optAll = 1<<iota - 1
)

func optNames(bits int) string {
	names := []string{"skipUnknown", "skipWhitespaces", "skipComments", "skipEof", "mergeWhitespaces", "unifyNumbers", "decodeStrings"}
	var on []string
	for i, n := range names {
		if bits&(1<<i) != 0 {
			on = append(on, n)
		}
	}
	if len(on) == 0 {
		return "none"
	}
	return strings.Join(on, "+")
}

func newTokenizer(kind string) tokenizers.ITokenizer { return newTokenizerUsed(kind, "") }

// newTokenizerUsed builds the tokenizer of the given kind; for the kinds with a user configuration the object
// tokenizes `warm` (when not empty) before the first and after every single configuration call, the way a caller
// does who configures an instance it is already using: the finished configuration is all that counts.
func newTokenizerUsed(kind string, warm string) tokenizers.ITokenizer {
	use := func(t tokenizers.ITokenizer) {
		if warm != "" {
			t.TokenizeBuffer(warm)
		}
	}
	switch kind {
	case "generic":
		return generic.NewGenericTokenizer()
	case "expression":
		return ctok.NewExpressionTokenizer()
	case "csv":
		return csv.NewCsvTokenizer()
	case "mustache":
		return mtok.NewMustacheTokenizer()
	case "generic+sym":
		t := generic.NewGenericTokenizer()
		use(t)
		// "::" comes after "::=": a prefix registered later than the longer symbol
		for _, s := range []string{"...", "=:~", "-->", "::=", "≠≠", "<=>", "<!--", "=:~=:~", "::"} {
			t.SymbolState().Add(s, tokenizers.Symbol)
			use(t)
		}
		// single characters with a class of their own (they start no longer symbol)
		t.SymbolState().Add(";", tokenizers.Special)
		t.SymbolState().Add("¤", tokenizers.Special)
		use(t)
		t.SetCharacterState('¤', '¤', t.SymbolState())
		use(t)
		t.SetCharacterState('≠', '≠', t.SymbolState())
		use(t)
		t.WordState().SetWordChars('≠', '≠', false) // a symbol character does not continue a word either
		use(t)
		return t
	case "expression+cpp":
		t := ctok.NewExpressionTokenizer()
		use(t)
		t.SetCommentState(generic.NewCppCommentState())
		use(t)
		t.SetCharacterState('/', '/', t.CommentState())
		use(t)
		return t
	case "generic+ws":
		t := generic.NewGenericTokenizer()
		use(t)
		t.WhitespaceState().SetWhitespaceChars('\n', '\n', false)
		use(t)
		t.SetCharacterState('\n', '\n', t.SymbolState())
		use(t)
		t.WordState().SetWordChars(0x3000, 0x303f, false)
		use(t)
		t.SetCharacterState(0x3000, 0x303f, t.SymbolState())
		use(t)
		return t
	case "expression+dis":
		t := ctok.NewExpressionTokenizer()
		use(t)
		t.WordState().SetWordChars(0x3000, 0x303f, false)
		use(t)
		return t
	case "expression+greek":
		// a block made letters, one character of it made a symbol, then the whole block made letters again with the
		// very same bounds: the last call decides for every character of the block
		t := ctok.NewExpressionTokenizer()
		use(t)
		t.SetCharacterState(0x0370, 0x03ff, t.WordState())
		use(t)
		t.SetCharacterState('Σ', 'Σ', t.SymbolState())
		use(t)
		t.SetCharacterState(0x0370, 0x03ff, t.WordState())
		use(t)
		return t
	case "expression+arrow":
		// user symbols that begin with the sign character of the expression language
		t := ctok.NewExpressionTokenizer()
		use(t)
		for _, sym := range []string{"->", "-=", "--", "+=", "=>"} {
			t.SymbolState().Add(sym, tokenizers.Symbol)
			use(t)
		}
		return t
	case "csv+cfg":
		t := csv.NewCsvTokenizer()
		use(t)
		t.SetQuoteSymbols([]rune{'«', '\'', '“'})
		use(t)
		t.SetFieldSeparators([]rune{'，', ';', '|'})
		use(t)
		return t
	}
	panic("unknown tokenizer kind " + kind)
}

var tokPools = map[string]*sync.Pool{}

func init() {
	for _, k := range tokKindsExt {
		kind := k
		tokPools[kind] = &sync.Pool{New: func() interface{} { return newTokenizer(kind) }}
	}
}

func getTok(kind string) tokenizers.ITokenizer { return tokPools[kind].Get().(tokenizers.ITokenizer) }

// putTok hands a tokenizer back to the pool in a deliberately "dirty" state: a reader over another input
// with one token peeked but not fetched. A correct tokenizer forgets all of it on the next SetReader, so the
// pooled path doubles as a cheap history-independence probe (failures seen only there are reported as such).
func putTok(kind string, t tokenizers.ITokenizer) {
	t.SetReader(rio.NewStringScanner("zz <> 9 'q"))
	t.HasNextToken()
	tokPools[kind].Put(t)
}

func setOptions(t tokenizers.ITokenizer, bits int) {
	// the seven setters are called in the rotation that ends with the setter of the highest option switched on (the
	// last one for the empty set): the outcome of configuring must not depend on which setter happens to be called last
	last := 6
	for i := 6; i >= 0; i-- {
		if bits&(1<<uint(i)) != 0 {
			last = i
			break
		}
	}
	setOptionsRotated(t, bits, last)
}

// tk is a harness-side copy of a token.
type tk struct {
	T int    `json:"t"`
	V string `json:"v"`
	L int    `json:"l"`
	C int    `json:"c"`
}

func (a tk) String() string { return fmt.Sprintf("%s(%q)@%d:%d", tokTypeName(a.T), a.V, a.L, a.C) }

func tokTypeName(t int) string {
	names := []string{"Unknown", "Eof", "Eol", "Float", "Integer", "HexDecimal", "Number", "Symbol", "Quoted", "Word", "Keyword", "Whitespace", "Comment", "Special"}
	if t >= 0 && t < len(names) {
		return names[t]
	}
	return fmt.Sprintf("Type%d", t)
}

func tksString(ts []tk) string {
	parts := make([]string, len(ts))
	for i, t := range ts {
		parts[i] = t.String()
	}
	return strings.Join(parts, " ")
}

// tokenizeCapped drives the tokenizer by hand (SetReader / NextToken) with a token-count cap:
// every non-Eof token of a terminating tokenizer consumes at least one character, so more than
// len(runes)+2 tokens is non-termination — a sound, clock-free hang detector.
// hasNext > 0 interleaves that many HasNextToken calls before each NextToken.
func tokenizeCapped(t tokenizers.ITokenizer, input string, hasNext int) ([]tk, *evid.Fail) {
	var out []tk
	limit := len([]rune(input)) + 2
	var nonTerm bool
	f := guard(func() {
		sc := newBudgetScanner(input)
		if mode := rescanFirst(input); mode == 2 {
			// ... or only peeked into (one has-next query, nothing fetched) before the caller rewound it
			t.SetReader(sc)
			t.HasNextToken()
			full := newBudgetScanner(input)
			sc.Reset()
			sc.budget = full.budget
		} else if mode == 1 {
			// a quarter of the inputs are read as a second pass: the same scanner object has been tokenized to its end
			// by this tokenizer already and was rewound by the caller; what the second pass delivers is what every
			// oracle above this helper judges
			t.SetReader(sc)
			for n := 0; n <= limit; n++ {
				if tok := t.NextToken(); tok == nil || tok.Type() == tokenizers.Eof {
					break
				}
			}
			full := newBudgetScanner(input)
			sc.Reset()
			sc.budget = full.budget
		}
		if lateOptions(input) {
			// for a share of the inputs the caller attaches the reader first and switches the options on afterwards
			bits := 0
			for i, on := range []bool{t.SkipUnknown(), t.SkipWhitespaces(), t.SkipComments(), t.SkipEof(), t.MergeWhitespaces(), t.UnifyNumbers(), t.DecodeStrings()} {
				if on {
					bits |= 1 << uint(i)
				}
			}
			setOptions(t, 0)
			t.SetReader(sc)
			setOptions(t, bits)
		} else {
			t.SetReader(sc)
		}
		for {
			for i := 0; i < hasNext; i++ {
				t.HasNextToken()
			}
			tok := t.NextToken()
			if tok == nil {
				return
			}
			out = append(out, tk{tok.Type(), tok.Value(), tok.Line(), tok.Column()})
			if len(out) > limit {
				nonTerm = true
				return
			}
		}
	})
	if f != nil {
		return out, f
	}
	if nonTerm {
		return out, evid.F("nontermination:token-cap", "more than %d tokens for %d characters of input %q", limit, limit-2, input)
	}
	return out, nil
}

// rescanFirst selects, by content, the inputs that are read as a second pass over a rewound scanner.
func rescanFirst(input string) int {
	h := len(input) * 7
	for i := 0; i < len(input); i++ {
		h = h*33 + int(input[i])
	}
	if h < 0 {
		h = -h
	}
	switch h % 8 {
	case 1, 5:
		return 1
	case 3:
		return 2
	}
	return 0
}

// lateOptions selects, by content, the inputs for which the options are set after the reader is attached.
func lateOptions(input string) bool {
	h := len(input) * 13
	for i := 0; i < len(input); i++ {
		h = h*37 + int(input[i])
	}
	if h < 0 {
		h = -h
	}
	return h%5 == 2
}

func runesOf(parts []string) string { return strings.Join(parts, "") }

// budgetScanner wraps the library's StringScanner and counts the calls made through the IScanner
// interface. A terminating tokenizer makes a bounded number of scanner calls per character, so exceeding
// 64*(len+4)+256 calls is non-termination inside one NextToken call — a sound, clock-free detector
// for loops that the token-count cap cannot see. It panics with hangPanic, which guard() reports.
type budgetScanner struct {
	inner  *rio.StringScanner
	budget int
}

type hangPanic struct{ input string }

func newBudgetScanner(input string) *budgetScanner {
	return &budgetScanner{inner: rio.NewStringScanner(input), budget: 64*(len([]rune(input))+4) + 256}
}

func (b *budgetScanner) tick() {
	b.budget--
	if b.budget < 0 {
		panic(hangPanic{})
	}
}
func (b *budgetScanner) Read() rune           { b.tick(); return b.inner.Read() }
func (b *budgetScanner) Line() int            { return b.inner.Line() }
func (b *budgetScanner) Column() int          { return b.inner.Column() }
func (b *budgetScanner) Peek() rune           { b.tick(); return b.inner.Peek() }
func (b *budgetScanner) PeekLine() int        { return b.inner.PeekLine() }
func (b *budgetScanner) PeekColumn() int      { return b.inner.PeekColumn() }
func (b *budgetScanner) Unread()              { b.tick(); b.inner.Unread() }
func (b *budgetScanner) UnreadMany(count int) { b.tick(); b.inner.UnreadMany(count) }
func (b *budgetScanner) Reset()               { b.inner.Reset() }
