package props

import (
	"fmt"
	rio "github.com/pip-services3-gox/pip-services3-expressions-gox/io"
	"strings"
	"sync"
	"testing"

	"github.com/pip-services3-gox/pip-services3-expressions-gox/csv"
	"github.com/pip-services3-gox/pip-services3-expressions-gox/tokenizers"
	"pgregory.net/rapid"
	"verif/pbt/evid"
)

// C09 — CSV text round-trips through the tokenizer for any table and configuration.

type c09Case struct {
	Seps    []rune     `json:"seps"`
	Quotes  []rune     `json:"quotes"`
	Eol     string     `json:"eol"`
	Table   [][]string `json:"table"`
	QuoteIt [][]int    `json:"quoteIt"` // per field: 0 = raw if possible, k>0 = wrap in quote symbol k-1 (mod len)
	// how the tokenizer gets its configuration: the order of the setter calls, a SetEndOfLine call somewhere among
	// them, and setter calls with an invalid value (they panic by contract and must leave nothing behind)
	Setup []string `json:"setup,omitempty"` // sequence out of: seps quotes eol:<text> badseps badquotes use:<text>
	// Alias: how the caller holds the lists it passes. 1 = separators and quote symbols are neighbouring sub-slices of
	// one array (the first with spare capacity reaching into the second); 2 = one buffer per setting, first passed with
	// other (valid) content, then overwritten with the real content and passed again
	Alias int `json:"alias,omitempty"`
	// Prev: "<separators>|<quote symbols>" the same tokenizer object was configured with (and used) before it got the
	// configuration above; all of them are ordinary field text now
	Prev string `json:"prev,omitempty"`
}

// c09Configure applies the configuration calls; "badseps" / "badquotes" are calls the tokenizer must reject
// (a separator equal to a current quote symbol and vice versa) without any lasting effect.
func c09Configure(t *csv.CsvTokenizer, c c09Case) {
	setup := c.Setup
	if len(setup) == 0 {
		setup = []string{"seps", "quotes"}
	}
	rejected := func(f func()) {
		defer func() { recover() }()
		f()
	}
	if parts := strings.SplitN(c.Prev, "|", 2); len(parts) == 2 && parts[0] != "" && parts[1] != "" {
		t.SetFieldSeparators([]rune(parts[0]))
		t.SetQuoteSymbols([]rune(parts[1]))
		t.TokenizeBuffer("a" + parts[0] + "b" + parts[1] + "c" + parts[1] + "\n" + parts[0])
	}
	seps, quotes := c.Seps, c.Quotes
	if c.Alias == 1 {
		d := append(append(append([]rune{}, c.Seps...), c.Quotes...), 'p', 'a', 'd')
		seps, quotes = d[:len(c.Seps)], d[len(c.Seps):len(c.Seps)+len(c.Quotes)]
	}
	decoys := []rune{'\x01', '\x02', '\x03', '\x04', '\x05'}
	for _, s := range setup {
		switch {
		case s == "seps":
			if c.Alias == 2 {
				buf := append([]rune{}, decoys[:len(c.Seps)]...)
				t.SetFieldSeparators(buf)
				copy(buf, c.Seps)
				seps = buf
			}
			t.SetFieldSeparators(seps)
		case s == "quotes":
			if c.Alias == 2 {
				buf := append([]rune{}, decoys[len(decoys)-len(c.Quotes):]...)
				t.SetQuoteSymbols(buf)
				copy(buf, c.Quotes)
				quotes = buf
			}
			t.SetQuoteSymbols(quotes)
		case strings.HasPrefix(s, "eol:"):
			t.SetEndOfLine(strings.TrimPrefix(s, "eol:"))
		case strings.HasPrefix(s, "use:"):
			// the tokenizer is used (under whatever configuration it has at this point) before it is configured further
			t.TokenizeBuffer(strings.TrimPrefix(s, "use:"))
		case s == "badseps":
			rejected(func() { t.SetFieldSeparators([]rune{'#', t.QuoteSymbols()[0]}) })
		case s == "badquotes":
			rejected(func() { t.SetQuoteSymbols([]rune{'$', t.FieldSeparators()[0]}) })
		}
	}
}

func runeIn(r rune, set []rune) bool {
	for _, x := range set {
		if x == r {
			return true
		}
	}
	return false
}

func c09NeedsQuote(f string, c c09Case) bool {
	for _, r := range f {
		if r == '\r' || r == '\n' || runeIn(r, c.Seps) || runeIn(r, c.Quotes) {
			return true
		}
	}
	return false
}

// c09Write is the harness's own CSV writer, straight from the statement.
func c09Write(c c09Case) (text string, quoted [][]bool) {
	var sb strings.Builder
	quoted = make([][]bool, len(c.Table))
	for i, row := range c.Table {
		if i > 0 {
			sb.WriteString(c.Eol)
		}
		quoted[i] = make([]bool, len(row))
		for j, f := range row {
			if j > 0 {
				sb.WriteRune(c.Seps[(i+j)%len(c.Seps)])
			}
			k := 0
			if i < len(c.QuoteIt) && j < len(c.QuoteIt[i]) {
				k = c.QuoteIt[i][j]
			}
			if k == 0 && c09NeedsQuote(f, c) {
				k = 1 + (i+j)%len(c.Quotes)
			}
			if k == 0 {
				sb.WriteString(f)
				continue
			}
			q := c.Quotes[(k-1)%len(c.Quotes)]
			quoted[i][j] = true
			sb.WriteRune(q)
			sb.WriteString(strings.ReplaceAll(f, string(q), string(q)+string(q)))
			sb.WriteRune(q)
		}
	}
	return sb.String(), quoted
}

func checkC09(c c09Case) *evid.Fail { return checkC09With(nil, c) }

// checkC09With: configured != nil is a tokenizer that already carries the case's configuration (the exhaustive
// enumeration reuses one per configuration and worker; failures are re-run on a fresh one).
func checkC09With(configured *csv.CsvTokenizer, c c09Case) *evid.Fail {
	text, quoted := c09Write(c)
	var toks []tk
	var strs, strs2 []string
	if g := guard(func() {
		t := configured
		if t == nil {
			t = csv.NewCsvTokenizer()
			c09Configure(t, c)
		}
		t.SetDecodeStrings(true)
		for _, x := range t.TokenizeBuffer(text) {
			toks = append(toks, tk{x.Type(), x.Value(), x.Line(), x.Column()})
		}
		// the string-list entry points read the same text: one string per token, empty fields included
		if len(text) < 400 {
			strs = t.TokenizeBufferToStrings(text)
			strs2 = t.TokenizeStreamToStrings(rio.NewStringScanner(text))
		}
	}); g != nil {
		return g
	}
	if len(text) < 400 {
		vals := make([]string, len(toks))
		for i, t := range toks {
			vals[i] = t.V
		}
		if fmt.Sprintf("%q", strs) != fmt.Sprintf("%q", vals) || fmt.Sprintf("%q", strs2) != fmt.Sprintf("%q", vals) {
			return evid.F("tostrings-differs", "text %q: the token values are %q, TokenizeBufferToStrings gives %q, TokenizeStreamToStrings %q", text, vals, strs, strs2)
		}
	}
	desc := func() string {
		return fmt.Sprintf("separators %q quotes %q eol %q table %q written as %q; tokens %s", string(c.Seps), string(c.Quotes), c.Eol, c.Table, text, tksString(toks))
	}
	rows := [][]string{{""}}
	counts := [][]int{{0}}
	types := [][]int{{-1}}
	eols := 0
	for i, t := range toks {
		switch {
		case t.T == tokenizers.Eof:
			if i != len(toks)-1 {
				return evid.F("eof-in-middle", "%s", desc())
			}
		case t.T == tokenizers.Eol:
			if t.V != c.Eol {
				return evid.F("eol-token-text", "an end-of-line token is %q, the line ending is %q; %s", t.V, c.Eol, desc())
			}
			eols++
			rows = append(rows, []string{""})
			counts = append(counts, []int{0})
			types = append(types, []int{-1})
		case t.T == tokenizers.Symbol && len([]rune(t.V)) == 1 && runeIn([]rune(t.V)[0], c.Seps):
			rows[len(rows)-1] = append(rows[len(rows)-1], "")
			counts[len(counts)-1] = append(counts[len(counts)-1], 0)
			types[len(types)-1] = append(types[len(types)-1], -1)
		default:
			r := len(rows) - 1
			f := len(rows[r]) - 1
			rows[r][f] += t.V
			counts[r][f]++
			types[r][f] = t.T
		}
	}
	if len(rows) != len(c.Table) {
		sig := "row-count"
		if eols != len(c.Table)-1 {
			sig = "eol-token-count"
		}
		return evid.F(sig, "recovered %d rows, wrote %d; %s", len(rows), len(c.Table), desc())
	}
	for i := range rows {
		if len(rows[i]) != len(c.Table[i]) {
			return evid.F("field-count", "row %d: recovered %d fields, wrote %d; %s", i, len(rows[i]), len(c.Table[i]), desc())
		}
		for j := range rows[i] {
			if rows[i][j] != c.Table[i][j] {
				sig := "field-value"
				if quoted[i][j] {
					sig += ":quoted"
				} else {
					sig += ":raw"
				}
				for _, r := range c.Table[i][j] {
					if r >= 0x100 {
						sig += ":non-latin"
						break
					}
				}
				return evid.F(sig, "row %d field %d: recovered %q, wrote %q; %s", i, j, rows[i][j], c.Table[i][j], desc())
			}
			wantTokens := 1
			wantType := tokenizers.Word
			if quoted[i][j] {
				wantType = tokenizers.Quoted
			} else if c.Table[i][j] == "" {
				wantTokens = 0
				wantType = -1
			}
			if counts[i][j] != wantTokens || types[i][j] != wantType {
				return evid.F("field-token-shape", "row %d field %d (%q, quoted=%v) arrived as %d token(s) of type %s; %s", i, j, c.Table[i][j], quoted[i][j], counts[i][j], tokTypeName(types[i][j]), desc())
			}
		}
	}
	return nil
}

func init() { regReplay("C09", checkC09) }

const c09Rule = "configuration (separators, quote symbols, line ending) x table of string fields, written by the harness's own writer (raw when possible or quote-encoded) and tokenized with decode-strings on; oracle: regrouped rows/fields equal the table, each non-empty field is exactly one Word/Quoted token, each line ending exactly one Eol token; non-trivial = a quoted field containing a separator, quote or line break, or a non-ASCII field; distinct by (configuration, table, quoting choices)"

func c09NonTrivial(c c09Case) bool {
	for _, row := range c.Table {
		for _, f := range row {
			if c09NeedsQuote(f, c) {
				return true
			}
			for _, r := range f {
				if r >= 0x80 {
					return true
				}
			}
		}
	}
	return false
}

func c09Run(rec *evid.Recorder, c c09Case) bool {
	labels := []string{"eol:" + fmt.Sprintf("%q", c.Eol), fmt.Sprintf("seps:%d", len(c.Seps)), fmt.Sprintf("quotes:%d", len(c.Quotes))}
	for _, s := range c.Seps {
		if s >= 0x100 {
			labels = append(labels, "non-latin-separator")
		}
	}
	for _, s := range c.Quotes {
		if s >= 0x100 {
			labels = append(labels, "non-latin-quote")
		}
	}
	rec.Case(jsonStr(c), c09NonTrivial(c), func() interface{} { return c }, labels...)
	if f := checkC09(c); f != nil {
		return rec.Fail(f, c)
	}
	return false
}

var c09Pools sync.Map // configuration key -> *sync.Pool of configured tokenizers

func c09RunPooled(rec *evid.Recorder, c c09Case) {
	key := string(c.Seps) + "|" + string(c.Quotes) + "|" + c.Prev
	pv, _ := c09Pools.LoadOrStore(key, &sync.Pool{New: func() interface{} {
		t := csv.NewCsvTokenizer()
		if parts := strings.SplitN(c.Prev, "|", 2); len(parts) == 2 && parts[0] != "" && parts[1] != "" {
			t.SetFieldSeparators([]rune(parts[0]))
			t.SetQuoteSymbols([]rune(parts[1]))
			t.TokenizeBuffer("a" + parts[0] + "b" + parts[1] + "c" + parts[1] + "\n" + parts[0])
		}
		t.SetFieldSeparators(c.Seps)
		t.SetQuoteSymbols(c.Quotes)
		return t
	}})
	pool := pv.(*sync.Pool)
	t := pool.Get().(*csv.CsvTokenizer)
	rec.Case(jsonStr(c), c09NonTrivial(c), func() interface{} { return c }, "eol:"+fmt.Sprintf("%q", c.Eol))
	f := checkC09With(t, c)
	// handed back the way a caller may leave it: another text started, one token peeked and never fetched
	t.SetReader(rio.NewStringScanner("left,over\n"))
	t.HasNextToken()
	pool.Put(t)
	if f != nil {
		if ff := checkC09(c); ff != nil {
			rec.Fail(ff, c)
		} else {
			rec.Fail(evid.F("reused-instance-only:"+f.Sig, "%s", f.Msg), c)
		}
	}
}

var c09Eols = []string{"\n", "\r", "\r\n", "\n\r"}

func TestC09_Exhaustive(t *testing.T) {
	rec := evid.New("C09", "TestC09_Exhaustive", "C09", c09Rule)
	rec.Exhaustive = true
	rec.DupFree = true
	defer finish(t, rec)
	alpha := []string{"a", ",", "\"", "\r", "\n", "é", "中"}
	var f2, f1 []string
	enumSerial(alpha, 2, func(p []string) { f2 = append(f2, strings.Join(p, "")) })
	enumSerial(alpha, 1, func(p []string) { f1 = append(f1, strings.Join(p, "")) })
	big := f1
	if thorough() {
		// 2x2 tables with fields of length 0..2 over the sub-alphabet {a , " LF é}
		big = nil
		enumSerial([]string{"a", ",", "\"", "\n", "é"}, 2, func(p []string) { big = append(big, strings.Join(p, "")) })
	}
	rec.Bounds = fmt.Sprintf("tables 1x1, 1x2, 2x1 with every field of length 0..2 over {a , \" CR LF é 中}; 2x2 tables with fields of length 0..%d; x 4 line endings x 2 configurations (default , and \"; two separators ,; with quotes \" and '), x quoting {only when needed, always}", len([]rune(big[len(big)-1])))
	configs := []c09Case{{Seps: []rune{','}, Quotes: []rune{'"'}}, {Seps: []rune{',', ';'}, Quotes: []rune{'"', '\''}}}
	emit := func(table [][]string) {
		for _, cfg := range configs {
			for _, eol := range c09Eols {
				for always := 0; always < 2; always++ {
					c := c09Case{Seps: cfg.Seps, Quotes: cfg.Quotes, Eol: eol, Table: table}
					if always == 1 {
						c.QuoteIt = make([][]int, len(table))
						for i := range table {
							c.QuoteIt[i] = make([]int, len(table[i]))
							for j := range table[i] {
								c.QuoteIt[i][j] = 1 + (i+2*j)%2
							}
						}
					}
					c09RunPooled(rec, c)
				}
			}
		}
	}
	parallelFor(len(f2), func(i int) {
		a := f2[i]
		emit([][]string{{a}})
		for _, b := range f2 {
			emit([][]string{{a, b}})
			emit([][]string{{a}, {b}})
		}
	})
	parallelFor(len(big)*len(big), func(i int) {
		a, b := big[i/len(big)], big[i%len(big)]
		for _, c := range big {
			for _, d := range big {
				emit([][]string{{a, b}, {c, d}})
			}
		}
	})
}

// Every character the tokenizer is configured for (U+0001..U+FFFE), inside and alone as a field, raw when the
// statement lets it be raw and quoted otherwise: no character class is special except separators, quotes, CR and LF.
func TestC09_ExhaustiveEveryCharacter(t *testing.T) {
	rec := evid.New("C09", "TestC09_ExhaustiveEveryCharacter", "C09", c09Rule)
	rec.Exhaustive = true
	rec.DupFree = true
	defer finish(t, rec)
	rec.Bounds = "every character U+0001..U+FFFE (surrogates excluded) as the fields <c>, a<c>b in a 2x2 table x {default configuration, separators ; TAB with quotes ' «} x {raw when possible, always quoted} x line endings LF / CRLF"
	configs := []c09Case{{Seps: []rune{','}, Quotes: []rune{'"'}}, {Seps: []rune{';', '\t'}, Quotes: []rune{'\'', '«'}},
		{Seps: []rune{','}, Quotes: []rune{'"'}, Prev: "；‖~¦|＂‹´"}}
	parallelFor(0xfffe, func(i int) {
		r := rune(i + 1)
		if r >= 0xd800 && r <= 0xdfff {
			return
		}
		table := [][]string{{string(r), "a" + string(r) + "b"}, {"z", string(r) + string(r)}}
		for ci, cfg := range configs {
			for always := 0; always < 2; always++ {
				c := c09Case{Seps: cfg.Seps, Quotes: cfg.Quotes, Prev: cfg.Prev, Eol: []string{"\n", "\r\n"}[(ci+always)%2], Table: table}
				if always == 1 {
					c.QuoteIt = [][]int{{1, 2}, {2, 1}}
				}
				c09RunPooled(rec, c)
			}
		}
	})
}

func TestC09_Rapid(t *testing.T) {
	rec := evid.New("C09", "TestC09_Rapid", "C09", c09Rule+"; rapid: 1-3 separators from {, ; TAB | space x § ‖}, 1-2 quotes from {\" ' ` « “}, tables 1-6 x 1-5, fields 0-12 characters over the BMP up to U+FFFE weighted to separators, quotes, CR/LF, empty and non-Latin text")
	defer finish(t, rec)
	sepPool := []rune{',', ';', '\t', '|', ' ', 'x', '§', '‖', '‗', ':'}
	quotePool := []rune{'"', '\'', '`', '«', '“', '”', '»'} // with neighbouring code points (U+201C / U+201D)
	runRapid(t, pick(30000, 250000), 9, func(rt *rapid.T) {
		seps := rapid.SliceOfNDistinct(rapid.SampledFrom(sepPool), 1, 3, func(r rune) rune { return r }).Draw(rt, "seps")
		quotes := rapid.SliceOfNDistinct(rapid.SampledFrom(quotePool), 1, 2, func(r rune) rune { return r }).Draw(rt, "quotes")
		c := c09Case{Seps: seps, Quotes: quotes, Eol: rapid.SampledFrom(c09Eols).Draw(rt, "eol")}
		if rapid.IntRange(0, 2).Draw(rt, "customsetup") == 0 {
			// the valid calls in either order (each exactly once, as the last word on its setting), with SetEndOfLine
			// and rejected calls sprinkled in between
			valid := rapid.Permutation([]string{"seps", "quotes"}).Draw(rt, "order")
			extras := []string{"eol:\n", "eol:\r", "eol:\r\n", "eol:\n\r", "eol:", "badseps", "badquotes"}
			// texts tokenized in between, ending in a character whose class the later calls change
			for _, r := range append(append([]rune{}, seps...), quotes...) {
				extras = append(extras, "use:a"+string(r), "use:"+string(r), "use:"+string(r)+"b"+string(r))
			}
			for pos := 0; pos <= 2; pos++ {
				for k := rapid.IntRange(0, 2).Draw(rt, "nextra"); k > 0; k-- {
					c.Setup = append(c.Setup, rapid.SampledFrom(extras).Draw(rt, "extra"))
				}
				if pos < 2 {
					c.Setup = append(c.Setup, valid[pos])
				}
			}
		}
		if rapid.IntRange(0, 3).Draw(rt, "aliased") == 0 {
			c.Alias = rapid.IntRange(1, 2).Draw(rt, "alias")
		}
		former := []rune{'中'}
		if rapid.IntRange(0, 3).Draw(rt, "reconfigured") == 0 {
			ps := rapid.SliceOfNDistinct(rapid.SampledFrom([]rune{'；', '│', '、', '¦', '~', '‖' + 1}), 1, 3, func(r rune) rune { return r }).Draw(rt, "prevseps")
			pq := rapid.SliceOfNDistinct(rapid.SampledFrom([]rune{'＂', '‹', '‘', '´'}), 1, 2, func(r rune) rune { return r }).Draw(rt, "prevquotes")
			c.Prev = string(ps) + "|" + string(pq)
			former = append(append([]rune{}, ps...), pq...)
		}
		rowsN := rapid.IntRange(1, 6).Draw(rt, "rows")
		if rapid.IntRange(0, 19).Draw(rt, "bigtable") == 0 {
			rowsN = rapid.IntRange(6, 60).Draw(rt, "manyrows")
		}
		for i := 0; i < rowsN; i++ {
			colsN := rapid.IntRange(1, 5).Draw(rt, "cols")
			var row []string
			var qi []int
			for j := 0; j < colsN; j++ {
				n := rapid.SampledFrom([]int{0, 0, 1, 1, 2, 3, 5, 8, 12, 17, 40, 300}).Draw(rt, "flen")
				var sb strings.Builder
				for k := 0; k < n; k++ {
					switch rapid.IntRange(0, 8).Draw(rt, "fk") {
					case 6:
						// every Latin-1 character, control characters included, is field text unless configured otherwise
						sb.WriteRune(rune(rapid.IntRange(1, 0xff).Draw(rt, "flatin1")))
					case 0:
						sb.WriteRune(rapid.SampledFrom(seps).Draw(rt, "fsep"))
					case 1:
						sb.WriteRune(rapid.SampledFrom(quotes).Draw(rt, "fq"))
					case 2:
						sb.WriteRune(rapid.SampledFrom([]rune{'\r', '\n'}).Draw(rt, "fbr"))
					case 3:
						r := rune(rapid.IntRange(0x100, 0xfffe).Draw(rt, "fbmp"))
						if r >= 0xd800 && r <= 0xdfff {
							r = 0x4e2d
						}
						sb.WriteRune(r)
					case 4:
						sb.WriteRune(rapid.SampledFrom([]rune{'中', '文', 'é', 'Ω', 0xfffe, 0x100, 0xff, 1, 0x7f, '"', '\'', ',', ' '}).Draw(rt, "fnamed"))
					case 5:
						sb.WriteRune(rapid.SampledFrom(unicodeSpecials).Draw(rt, "fspecial"))
					case 7:
						sb.WriteRune(rapid.SampledFrom(former).Draw(rt, "fformer"))
					default:
						sb.WriteRune(rune(rapid.SampledFrom([]rune("abcxyz019 .-")).Draw(rt, "fplain")))
					}
				}
				if i == 0 && j == 0 && rapid.IntRange(0, 9).Draw(rt, "firstspecial") == 0 {
					// the very first character of the whole text
					row = append(row, string(rapid.SampledFrom(unicodeSpecials).Draw(rt, "first"))+sb.String())
					qi = append(qi, rapid.SampledFrom([]int{0, 0, 0, 1, 2}).Draw(rt, "quoteit"))
					continue
				}
				row = append(row, sb.String())
				qi = append(qi, rapid.SampledFrom([]int{0, 0, 0, 1, 2}).Draw(rt, "quoteit"))
			}
			c.Table = append(c.Table, row)
			c.QuoteIt = append(c.QuoteIt, qi)
		}
		if c09Run(rec, c) {
			rt.Fatalf("C09 violated")
		}
	})
	requireLabels(t, rec, "non-latin-separator", "non-latin-quote", "eol:\"\\n\\r\"", "eol:\"\\r\"")
}

// ---------------------------------------------------------------------------------------
// Sizes: one field of N characters (raw and quoted, Latin and not) between two short ones, and N rows / N fields,
// around the powers of two up to 2^16, described rather than spelled out.

type c09BigCase struct {
	Shape string `json:"shape"` // raw | quoted | nonlatin | rows | fields
	N     int    `json:"n"`
	Cfg   int    `json:"cfg"`
}

func (c c09BigCase) build() c09Case {
	out := c09Case{Seps: []rune{','}, Quotes: []rune{'"'}, Eol: "\r\n"}
	if c.Cfg == 1 {
		out = c09Case{Seps: []rune{';', '，'}, Quotes: []rune{'\'', '«'}, Eol: "\n"}
	}
	switch c.Shape {
	case "raw":
		out.Table = [][]string{{"a", strings.Repeat("w", c.N), "b"}, {strings.Repeat("x y", c.N/3+1), "z"}}
	case "nonlatin":
		out.Table = [][]string{{"a", strings.Repeat("é中", c.N/2+1), "b"}}
	case "quoted":
		out.Table = [][]string{{"a", strings.Repeat("q,\"\n", c.N/4+1), "b"}}
	case "rows":
		for i := 0; i < c.N; i++ {
			out.Table = append(out.Table, []string{"r", ""})
		}
	case "fields":
		row := make([]string, c.N)
		for i := range row {
			row[i] = []string{"f", "", "1 2"}[i%3]
		}
		out.Table = [][]string{row, {"end"}}
	}
	return out
}

func checkC09Big(c c09BigCase) *evid.Fail {
	f := checkC09(c.build())
	if f != nil {
		if len(f.Msg) > 500 {
			f.Msg = f.Msg[:250] + " ... " + f.Msg[len(f.Msg)-250:]
		}
		f.Msg = fmt.Sprintf("%s of size %d (configuration %d): %s", c.Shape, c.N, c.Cfg, f.Msg)
	}
	return f
}

func init() { regReplay("C09.big", checkC09Big) }

func TestC09_EnumSizes(t *testing.T) {
	rec := evid.New("C09", "TestC09_EnumSizes", "C09.big", c09Rule+"; sizes: one raw / non-Latin / quoted field of 2^k-1, 2^k, 2^k+1 characters (k = 5..16, and 1500, 3000), tables of 2^k rows and rows of 2^k fields (k = 5..12), x 2 configurations")
	rec.Exhaustive = true
	rec.DupFree = true
	defer finish(t, rec)
	var cases []c09BigCase
	for cfg := 0; cfg < 2; cfg++ {
		for _, shape := range []string{"raw", "nonlatin", "quoted"} {
			sizes := []int{1500, 3000}
			for k := 5; k <= pick(15, 16); k++ {
				sizes = append(sizes, 1<<uint(k)-1, 1<<uint(k), 1<<uint(k)+1)
			}
			for _, n := range sizes {
				cases = append(cases, c09BigCase{shape, n, cfg})
			}
		}
		for k := 5; k <= 12; k++ {
			cases = append(cases, c09BigCase{"rows", 1 << uint(k), cfg}, c09BigCase{"fields", 1<<uint(k) + 1, cfg})
		}
	}
	rec.Bounds = fmt.Sprintf("%d described tables", len(cases))
	parallelFor(len(cases), func(i int) {
		c := cases[i]
		rec.Case(jsonStr(c), true, func() interface{} { return c }, "shape:"+c.Shape)
		if f := checkC09Big(c); f != nil {
			rec.Fail(f, c)
		}
	})
}
