package props

import (
	"encoding/hex"
	"fmt"
	"strings"
	"testing"

	rio "github.com/pip-services3-gox/pip-services3-expressions-gox/io"
	"pgregory.net/rapid"
	"verif/pbt/evid"
)

// C11 — the string scanner is a faithful cursor with position-only line/column.

const (
	opRead = iota
	opUnread
	opUnread2
	opUnread3
	opReset
	opPeek
	opPeekLine
	opPeekColumn
	nScanOps
)

// ops >= opUnreadK stand for UnreadMany(op - opUnreadK), any count from 0 upwards (the random histories only)
const opUnreadK = 100

// ops in [opUnreadNeg, opUnreadNeg+10) stand for UnreadMany with a negative count -1 .. -10: nothing to step back
const opUnreadNeg = 50

func scanOpName(op int) string {
	if op >= opUnreadNeg && op < opUnreadNeg+10 {
		return fmt.Sprintf("UnreadMany(%d)", -(op - opUnreadNeg + 1))
	}
	if op >= opUnreadK {
		return fmt.Sprintf("UnreadMany(%d)", op-opUnreadK)
	}
	return scanOpNames[op]
}

func unreadCount(op int) int {
	if op >= opUnreadK {
		return op - opUnreadK
	}
	return op - opUnread + 1
}

var scanOpNames = []string{"Read", "Unread", "UnreadMany(2)", "UnreadMany(3)", "Reset", "Peek", "PeekLine", "PeekColumn"}

type c11Case struct {
	Content string `json:"content"`
	Ops     []int  `json:"ops"`
	// Quiet: Line() / Column() are not read between the steps (only the operations' own results are checked, and
	// everything at the end), so that an observation cannot repair lazily maintained state before it is used
	Quiet bool `json:"quiet,omitempty"`
	// ContentHex: the content as hex-encoded bytes, for contents that are not valid UTF-8 (JSON cannot carry them);
	// when set it replaces Content. The scanner's characters are then what Go's []rune conversion yields.
	ContentHex string `json:"contentHex,omitempty"`
}

// refCoords is the reference coordinate model: coords[p+1] = (line, column) reported when the cursor
// is at position p in [-1, len]; written from the statement (LF always breaks; CR breaks unless
// adjacent to an LF; a break sets column 0 and bumps the line; every non-CR/LF character bumps the
// column; the end-of-input slot has the coordinates of the last character).
func refCoords(content []rune) [][2]int {
	out := make([][2]int, len(content)+2)
	line, col := 1, 0
	out[0] = [2]int{line, col}
	for i, ch := range content {
		prevLF := i > 0 && content[i-1] == '\n'
		nextLF := i+1 < len(content) && content[i+1] == '\n'
		switch {
		case ch == '\n':
			line++
			col = 0
		case ch == '\r':
			if !prevLF && !nextLF {
				line++
				col = 0
			}
		default:
			col++
		}
		out[i+1] = [2]int{line, col}
	}
	out[len(content)+1] = out[len(content)]
	return out
}

func checkC11(c c11Case) (fail *evid.Fail) {
	if c.ContentHex != "" {
		if b, err := hex.DecodeString(c.ContentHex); err == nil {
			c.Content = string(b)
		}
	}
	content := []rune(c.Content)
	n := len(content)
	coords := refCoords(content)
	var res *evid.Fail
	if g := guard(func() {
		// what a fresh forward scan reports at each position (the statement's own wording)
		fresh := rio.NewStringScanner(c.Content)
		for p := -1; p <= n; p++ {
			if p >= 0 {
				fresh.Read()
			}
			if fresh.Line() != coords[p+1][0] || fresh.Column() != coords[p+1][1] {
				res = evid.F("forward-scan-coords", "content %q: fresh forward scan to position %d reports %d:%d, reference %d:%d",
					c.Content, p, fresh.Line(), fresh.Column(), coords[p+1][0], coords[p+1][1])
				return
			}
		}
		s := rio.NewStringScanner(c.Content)
		p := -1
		at := func(q int) rune {
			if q >= 0 && q < n {
				return content[q]
			}
			return -1
		}
		observe := func(step int, opn string) *evid.Fail {
			if c.Quiet && opn != "final-reads" && opn != "final" {
				return nil
			}
			if s.Line() != coords[p+1][0] || s.Column() != coords[p+1][1] {
				return evid.F("coords-after:"+opn, "content %q ops %s: after step %d (%s) at position %d scanner reports %d:%d, a forward scan reports %d:%d",
					c.Content, opsString(c.Ops), step, opn, p, s.Line(), s.Column(), coords[p+1][0], coords[p+1][1])
			}
			return nil
		}
		for i, op := range c.Ops {
			name := scanOpName(op)
			if op >= opUnreadNeg && op < opUnreadNeg+10 {
				s.UnreadMany(-(op - opUnreadNeg + 1))
				op = -1
			}
			if op >= opUnreadK {
				k := unreadCount(op)
				s.UnreadMany(k)
				for ; k > 0 && p >= 0; k-- {
					p--
				}
				op = -1 // handled; fall through to the common checks below
			}
			switch op {
			case opRead:
				got := s.Read()
				if p < n {
					p++
				}
				if want := at(p); got != want {
					res = evid.F("read-value", "content %q ops %s: step %d Read returned %d want %d", c.Content, opsString(c.Ops), i, got, want)
					return
				}
			case opUnread, opUnread2, opUnread3:
				k := op - opUnread + 1
				if k == 1 {
					s.Unread()
				} else {
					s.UnreadMany(k)
				}
				for ; k > 0; k-- {
					if p >= 0 {
						p--
					}
				}
			case opReset:
				s.Reset()
				p = -1
			case opPeek:
				if got, want := s.Peek(), at(p+1); got != want {
					res = evid.F("peek-value", "content %q ops %s: step %d Peek returned %d want %d", c.Content, opsString(c.Ops), i, got, want)
					return
				}
			case opPeekLine, opPeekColumn:
				var pl, pc int
				if op == opPeekColumn {
					pc = s.PeekColumn() // the named getter first: nothing else has looked at the scanner since the last operation
					pl = s.PeekLine()
				} else {
					pl = s.PeekLine()
					pc = s.PeekColumn()
				}
				if p+1 < n {
					if pl != coords[p+2][0] || pc != coords[p+2][1] {
						res = evid.F("peek-coords", "content %q ops %s: step %d at position %d peeked %d:%d but the next read reports %d:%d",
							c.Content, opsString(c.Ops), i, p, pl, pc, coords[p+2][0], coords[p+2][1])
						return
					}
				} else {
					// end of input: the statement ("as after the next read") and the library's convention
					// C12 relies on (one column past the last character) differ; both are admitted.
					cur := coords[p+1]
					if pl != cur[0] || (pc != cur[1] && pc != cur[1]+1) {
						res = evid.F("peek-coords-at-end", "content %q ops %s: step %d at end position %d peeked %d:%d, current %d:%d",
							c.Content, opsString(c.Ops), i, p, pl, pc, cur[0], cur[1])
						return
					}
				}
			}
			if f := observe(i, name); f != nil {
				res = f
				return
			}
		}
		// final observation of everything, then the cursor itself: the remaining reads
		if f := observe(len(c.Ops), "final"); f != nil {
			res = f
			return
		}
		if got, want := s.Peek(), at(p+1); got != want {
			res = evid.F("peek-value", "content %q ops %s: final Peek returned %d want %d", c.Content, opsString(c.Ops), got, want)
			return
		}
		for q := p; q <= n; q++ {
			got := s.Read()
			if p < n {
				p++
			}
			if want := at(p); got != want {
				res = evid.F("cursor-position", "content %q ops %s: reading on from the final position returned %d want %d (model position %d)",
					c.Content, opsString(c.Ops), got, want, p)
				return
			}
			if f := observe(len(c.Ops), "final-reads"); f != nil {
				res = f
				return
			}
		}
	}); g != nil {
		return g
	}
	return res
}

func opsString(ops []int) string {
	parts := make([]string, len(ops))
	for i, o := range ops {
		parts[i] = scanOpName(o)
	}
	return "[" + strings.Join(parts, " ") + "]"
}

// c11Classify: non-trivial = some Unread/UnreadMany crosses a CR or LF, starts at position -1 or leaves
// the end-of-input slot.
func c11Classify(c c11Case) (bool, []string) {
	content := []rune(c.Content)
	n := len(content)
	p := -1
	nt := false
	labels := map[string]bool{}
	for _, op := range c.Ops {
		if op >= opUnreadNeg && op < opUnreadNeg+10 {
			labels["unread-many-negative"] = true
			continue
		}
		if op >= opUnreadK {
			if unreadCount(op) > 16 {
				labels["unread-many>16"] = true
			}
			op = opUnread3
		}
		switch op {
		case opRead:
			if p < n {
				p++
			}
		case opUnread, opUnread2, opUnread3:
			for k := op - opUnread + 1; k > 0; k-- {
				if p == -1 {
					nt = true
					labels["unread-at-start"] = true
				}
				if p == n {
					nt = true
					labels["unread-leaves-eof-slot"] = true
				}
				if p >= 0 && p < n && (content[p] == '\r' || content[p] == '\n') {
					nt = true
					labels["unread-crosses-break"] = true
				}
				if p >= 0 {
					p--
				}
			}
		case opReset:
			p = -1
		}
	}
	var out []string
	for l := range labels {
		out = append(out, l)
	}
	return nt, out
}

func init() { regReplay("C11", checkC11) }

const c11Rule = "content x operation sequence over {Read, Unread, UnreadMany(2), UnreadMany(3), Reset, Peek, PeekLine, PeekColumn}, checked against an integer-position model after every step; non-trivial = an unread crosses a CR/LF, happens at the start, or leaves the end-of-input slot; distinct by (content, sequence)"

func TestC11_Exhaustive(t *testing.T) {
	rec := evid.New("C11", "TestC11_Exhaustive", "C11", c11Rule)
	rec.Exhaustive = true
	rec.DupFree = true
	defer finish(t, rec)
	maxContent := 5
	depth := pick(6, 7)
	rec.Bounds = fmt.Sprintf("all contents of length 0..%d over {x, LF, CR} x all operation sequences of length exactly %d (every prefix is checked on the way)", maxContent, depth)
	var contents []string
	enumSerial([]string{"x", "\n", "\r"}, maxContent, func(parts []string) { contents = append(contents, strings.Join(parts, "")) })
	// partition: content x first two ops
	type job struct {
		content string
		a, b    int
	}
	var jobs []job
	for _, c := range contents {
		for a := 0; a < nScanOps; a++ {
			for b := 0; b < nScanOps; b++ {
				jobs = append(jobs, job{c, a, b})
			}
		}
	}
	parallelFor(len(jobs), func(i int) {
		j := jobs[i]
		ops := make([]int, depth)
		ops[0], ops[1] = j.a, j.b
		var recur func(k int)
		recur = func(k int) {
			if k == depth-1 {
				q := c11Case{Content: j.content, Ops: ops[:k], Quiet: true}
				nt, labels := c11Classify(q)
				rec.Case("q|"+j.content+"|"+string(opsKey(ops[:k])), nt, nil, append(labels, "quiet")...)
				if f := checkC11(q); f != nil {
					rec.Fail(f, c11Case{Content: j.content, Ops: append([]int{}, ops[:k]...), Quiet: true})
				}
			}
			if k == depth {
				c := c11Case{Content: j.content, Ops: ops}
				nt, labels := c11Classify(c)
				key := j.content + "|" + string(opsKey(ops))
				rec.Case(key, nt, func() interface{} { return c11Case{Content: j.content, Ops: append([]int{}, ops...)} }, labels...)
				if f := checkC11(c); f != nil {
					rec.Fail(f, c11Case{Content: j.content, Ops: append([]int{}, ops...)})
				}
				return
			}
			for o := 0; o < nScanOps; o++ {
				ops[k] = o
				recur(k + 1)
			}
		}
		recur(2)
	})
	requireLabels(t, rec, "unread-at-start", "unread-leaves-eof-slot", "unread-crosses-break")
}

func opsKey(ops []int) []byte {
	b := make([]byte, 0, len(ops))
	for _, o := range ops {
		if o >= opUnreadK {
			b = append(b, 'U', byte((o-opUnreadK)>>8), byte(o-opUnreadK))
			continue
		}
		b = append(b, byte('0'+o))
	}
	return b
}

// enumSerial enumerates all strings of length 0..maxLen over alphabet on the calling goroutine.
func enumSerial(alphabet []string, maxLen int, f func(parts []string)) {
	var cur []string
	var rec func()
	rec = func() {
		f(append([]string{}, cur...))
		if len(cur) == maxLen {
			return
		}
		for _, a := range alphabet {
			cur = append(cur, a)
			rec()
			cur = cur[:len(cur)-1]
		}
	}
	rec()
}

func TestC11_Rapid(t *testing.T) {
	rec := evid.New("C11", "TestC11_Rapid", "C11", c11Rule+"; rapid: contents up to 40 characters weighted to CR/LF runs, up to 60 operations")
	defer finish(t, rec)
	runRapid(t, pick(40000, 300000), 11, func(rt *rapid.T) {
		n := rapid.IntRange(0, 40).Draw(rt, "len")
		if rapid.IntRange(0, 15).Draw(rt, "long") == 0 {
			n = rapid.IntRange(40, 2600).Draw(rt, "longlen") // offsets past 256 / 1024 / 2048, line numbers past 10 and 100
		}
		var sb strings.Builder
		for i := 0; i < n; i++ {
			switch rapid.IntRange(0, 5).Draw(rt, "k") {
			case 0, 1:
				sb.WriteByte('\n')
			case 2, 3:
				sb.WriteByte('\r')
			case 4:
				sb.WriteRune(genRune(rt))
			default:
				// an ordinary character - the NUL character is one (it is not the end of the content)
				sb.WriteByte(rapid.SampledFrom([]byte{'x', 'x', 'x', 0, '\t'}).Draw(rt, "plain"))
			}
		}
		content := []rune(sb.String())
		if len(content) > 0 && rapid.IntRange(0, 19).Draw(rt, "prefix") == 0 {
			content[0] = rapid.SampledFrom(unicodeSpecials).Draw(rt, "first")
			sb.Reset()
			sb.WriteString(string(content))
		}
		if len(content) > 200 {
			// plant line-break patterns across power-of-two offsets (block boundaries of caches / checkpoints)
			for _, b := range []int{64, 128, 256, 512, 1024, 2048} {
				if b < len(content)-1 && rapid.Bool().Draw(rt, "plant") {
					pat := []rune(rapid.SampledFrom([]string{"\n\r", "\r\n", "\n\n", "\r\r", "x\r", "\rx", "\nx", "x\n"}).Draw(rt, "pat"))
					content[b-1], content[b] = pat[0], pat[1]
				}
			}
			sb.Reset()
			sb.WriteString(string(content))
		}
		ops := rapid.SliceOfN(rapid.SampledFrom([]int{opRead, opRead, opRead, opRead, opUnread, opUnread, opUnread2, opUnread3, opReset, opPeek, opPeekLine, opPeekColumn}), 0, 60).Draw(rt, "ops")
		// multi-unreads of any count: none, one, a few, dozens, more than was read
		for i := range ops {
			if (ops[i] == opUnread2 || ops[i] == opUnread3) && rapid.Bool().Draw(rt, "anycount") {
				ops[i] = opUnreadK + rapid.SampledFrom([]int{0, 1, 2, 4, 5, 8, 15, 16, 17, 18, 20, 31, 32, 33, 40, 64, 65, 100, 300, 3000}).Draw(rt, "count")
				if rapid.IntRange(0, 5).Draw(rt, "negative") == 0 {
					ops[i] = opUnreadNeg + rapid.IntRange(0, 9).Draw(rt, "negcount")
				}
			}
		}
		if n > 40 {
			// walk deep into long contents first, then work there
			walk := make([]int, rapid.IntRange(n/2, n+2).Draw(rt, "walk"))
			ops = append(walk, ops...)
		}
		c := c11Case{Content: sb.String(), Ops: ops, Quiet: rapid.Bool().Draw(rt, "quiet")}
		if rapid.IntRange(0, 7).Draw(rt, "invalidutf8") == 0 {
			// bytes that are not UTF-8 (lone continuation and lead bytes, truncated and overlong forms, an encoded
			// surrogate) spliced in front of line breaks and characters
			raw := []byte(c.Content)
			for k := rapid.IntRange(1, 3).Draw(rt, "badn"); k > 0; k-- {
				at := rapid.IntRange(0, len(raw)).Draw(rt, "badat")
				bad := rapid.SampledFrom([]string{"\xff", "\x80", "\xc3", "\xe4\xb8", "\xf0\x9f\x98", "\xc0\x8a", "\xed\xa0\x80", "\xfe\n", "\xc3\r\n"}).Draw(rt, "bad")
				raw = append(raw[:at:at], append([]byte(bad), raw[at:]...)...)
			}
			c.Content = string(raw)
			c.ContentHex = hex.EncodeToString(raw)
		}
		nt, labels := c11Classify(c)
		rec.Case(c.Content+"|"+string(opsKey(ops)), nt, func() interface{} { return c }, labels...)
		if f := checkC11(c); f != nil {
			if rec.Fail(f, c) {
				rt.Fatalf("%v", f)
			}
		}
	})
}

// ---------------------------------------------------------------------------------------
// Sizes: a line break (LF, CR, CRLF, LFCR) sitting just before, at and just behind the offsets 2^6 .. 2^14 of a long
// content; the cursor reads past it and then steps back and forth over it in every way of up to three operations.
// Described rather than spelled out; the oracle is the step-by-step check itself.

type c11BigCase struct {
	B     int    `json:"b"`     // the offset
	Break string `json:"break"` // the line break planted there
	Shift int    `json:"shift"` // -1, 0, +1: where its first character sits relative to the offset
	Tail  []int  `json:"tail"`  // operations after the cursor has read two characters past the break
	Quiet bool   `json:"quiet,omitempty"`
}

func (c c11BigCase) build() c11Case {
	at := c.B + c.Shift
	var sb strings.Builder
	for sb.Len() < at {
		if sb.Len()%100 == 99 {
			sb.WriteByte('\n')
		} else {
			sb.WriteByte('x')
		}
	}
	sb.WriteString(c.Break)
	sb.WriteString("ab\ncd")
	ops := make([]int, 0, at+len(c.Break)+2+len(c.Tail))
	for i := 0; i < at+len(c.Break)+2; i++ {
		ops = append(ops, opRead)
	}
	return c11Case{Content: sb.String(), Ops: append(ops, c.Tail...), Quiet: c.Quiet}
}

func checkC11Big(c c11BigCase) *evid.Fail {
	f := checkC11(c.build())
	if f != nil {
		if len(f.Msg) > 400 {
			f.Msg = f.Msg[len(f.Msg)-400:]
		}
		f.Msg = fmt.Sprintf("break %q at offset %d%+d, then %s: ... %s", c.Break, c.B, c.Shift, opsString(c.Tail), f.Msg)
	}
	return f
}

func init() { regReplay("C11.big", checkC11Big) }

func TestC11_EnumSizes(t *testing.T) {
	rec := evid.New("C11", "TestC11_EnumSizes", "C11.big", c11Rule+"; sizes: the four line breaks planted just before, at and just behind the offsets 2^6 .. 2^14, the cursor read two characters past them, then every sequence of up to three operations out of {Unread, UnreadMany(2), UnreadMany(3), Read, PeekLine}, observed and quiet")
	rec.Exhaustive = true
	rec.DupFree = true
	defer finish(t, rec)
	alpha := []int{opUnread, opUnread2, opUnread3, opRead, opPeekLine}
	var tails [][]int
	for _, a := range alpha {
		tails = append(tails, []int{a})
		for _, b := range alpha {
			tails = append(tails, []int{a, b})
			for _, d := range alpha {
				tails = append(tails, []int{a, b, d})
			}
		}
	}
	var cases []c11BigCase
	for k := 6; k <= pick(13, 14); k++ {
		for _, br := range []string{"\n", "\r", "\r\n", "\n\r"} {
			for shift := -1; shift <= 1; shift++ {
				for ti, tail := range tails {
					cases = append(cases, c11BigCase{1 << uint(k), br, shift, tail, ti%2 == 1})
				}
			}
		}
	}
	rec.Bounds = fmt.Sprintf("%d described histories", len(cases))
	parallelFor(len(cases), func(i int) {
		c := cases[i]
		rec.Case(jsonStr(c), true, func() interface{} { return c }, fmt.Sprintf("offset:%d", c.B))
		if f := checkC11Big(c); f != nil {
			rec.Fail(f, c)
		}
	})
}
