package props

import (
	"fmt"
	"strings"
	"testing"

	"github.com/pip-services3-gox/pip-services3-expressions-gox/calculator"
	"github.com/pip-services3-gox/pip-services3-expressions-gox/calculator/functions"
	"github.com/pip-services3-gox/pip-services3-expressions-gox/calculator/variables"
	"github.com/pip-services3-gox/pip-services3-expressions-gox/variants"
	"pgregory.net/rapid"
	"verif/pbt/evid"
)

// C01 — expression value follows precedence, associativity and operand order.

type c01Case struct {
	Tree  *node     `json:"tree"`
	Texts []string  `json:"texts"` // printings of the same tree (minimal, random redundant, full parentheses)
	Vars  []binding `json:"vars"`
	Safe  bool      `json:"safe"` // type-safe operations manager
}

// harness function: returns the array of its arguments (makes argument order and count visible)
func tupFunction(name string) functions.IFunction {
	return functions.NewDelegatedFunction(name, func(params []*variants.Variant, ops variants.IVariantOperations) (*variants.Variant, error) {
		return variants.VariantFromArray(params), nil
	})
}

// replacedFunction stands in for a function the caller took out of its collection and put back under the same name:
// the result is the original one wrapped in an array that says so.
type replacedFunction struct{ old functions.IFunction }

func (r *replacedFunction) Name() string { return r.old.Name() }
func (r *replacedFunction) Calculate(params []*variants.Variant, ops variants.IVariantOperations) (*variants.Variant, error) {
	v, err := r.old.Calculate(params, ops)
	if err != nil {
		return nil, err
	}
	return variants.VariantFromArray([]*variants.Variant{variants.VariantFromString("replaced"), v}), nil
}

func c01Functions() functions.IFunctionCollection {
	fc := functions.NewDefaultFunctionCollection()
	fc.Add(tupFunction("Tup"))
	fc.Add(tupFunction("a")) // the exhaustive alphabet writes calls as "a ( ... )"
	return fc
}

func opsManager(safe bool) variants.IVariantOperations {
	if safe {
		return variants.NewTypeSafeVariantOperations()
	}
	return variants.NewTypeUnsafeVariantOperations()
}

type evalErr struct{ msg string }

func (e *evalErr) Error() string { return e.msg }

// evalTree evaluates the syntax tree directly, node by node, operands in written order, with the library's
// own variant operations and function objects (C06/C08 own those; C01 owns the plumbing).
func evalTree(n *node, vars variables.IVariableCollection, funcs functions.IFunctionCollection, ops variants.IVariantOperations) (*variants.Variant, error) {
	switch n.Op {
	case "const":
		return literalVal(n.Tok).toVariant(), nil
	case "var":
		v := vars.FindByName(identName(n.Tok))
		if v == nil {
			return nil, &evalErr{"variable not found"}
		}
		return v.Value(), nil
	case "call":
		args := []*variants.Variant{}
		for _, k := range n.Kids {
			a, err := evalTree(k, vars, funcs, ops)
			if err != nil {
				return nil, err
			}
			args = append(args, a)
		}
		f := funcs.FindByName(identName(n.Tok))
		if f == nil {
			return nil, &evalErr{"function not found"}
		}
		if strings.EqualFold(identName(n.Tok), "Sum") && len(args) >= 2 {
			// "Sum over all arguments": the variant addition folded over the arguments in written order
			acc := args[0]
			for _, a := range args[1:] {
				var err error
				if acc, err = ops.Add(acc, a); err != nil {
					return nil, err
				}
			}
			return acc, nil
		}
		return f.Calculate(args, ops)
	}
	var kids []*variants.Variant
	for _, k := range n.Kids {
		v, err := evalTree(k, vars, funcs, ops)
		if err != nil {
			return nil, err
		}
		kids = append(kids, v)
	}
	x := kids[0]
	var y *variants.Variant
	if len(kids) > 1 {
		y = kids[1]
	}
	switch n.Op {
	case "pos":
		return x, nil
	case "neg":
		return ops.Negative(x)
	case "not":
		return ops.Not(x)
	case "isnull":
		return variants.VariantFromBoolean(x.IsNull()), nil
	case "isnotnull":
		return variants.VariantFromBoolean(!x.IsNull()), nil
	case "index":
		return ops.GetElement(x, y)
	case "AND":
		return ops.And(x, y)
	case "OR":
		return ops.Or(x, y)
	case "XOR":
		return ops.Xor(x, y)
	case "=":
		return ops.Equal(x, y)
	case "<>":
		return ops.NotEqual(x, y)
	case ">":
		return ops.More(x, y)
	case "<":
		return ops.Less(x, y)
	case ">=":
		return ops.MoreEqual(x, y)
	case "<=":
		return ops.LessEqual(x, y)
	case "+":
		return ops.Add(x, y)
	case "-":
		return ops.Sub(x, y)
	case "*":
		return ops.Mul(x, y)
	case "/":
		return ops.Div(x, y)
	case "%":
		return ops.Mod(x, y)
	case "^":
		return ops.Pow(x, y)
	case "<<":
		return ops.Lsh(x, y)
	case ">>":
		return ops.Rsh(x, y)
	case "IN":
		return ops.In(y, x) // membership: container first
	case "NOTIN":
		r, err := ops.In(y, x)
		if err != nil {
			return nil, err
		}
		if r.Type() != variants.Boolean {
			// membership with a Null operand is Null; Null propagates through the negation (C06's rule)
			return r, nil
		}
		return variants.VariantFromBoolean(!r.AsBoolean()), nil
	case "LIKE", "NOTLIKE":
		return nil, &evalErr{"no LIKE operation exists"}
	}
	return nil, &evalErr{"unknown node " + n.Op}
}

func hasOp(n *node, ops ...string) bool {
	for _, o := range ops {
		if n.Op == o {
			return true
		}
	}
	for _, k := range n.Kids {
		if hasOp(k, ops...) {
			return true
		}
	}
	return false
}

func checkC01(c c01Case) *evid.Fail {
	want := expectedRPN(postOrder(c.Tree, nil))
	ops := opsManager(c.Safe)
	funcs := c01Functions()
	var wantV *variants.Variant
	var wantErr error
	wantPanic := guard(func() { wantV, wantErr = evalTree(c.Tree, makeVars(c.Vars), funcs, ops) })
	results := make([]string, len(c.Texts))
	var lastCalc *calculator.ExpressionCalculator
	for i, text := range c.Texts {
		calc := calculator.NewExpressionCalculator()
		calc.SetVariantOperations(ops)
		var err error
		if g := guard(func() { err = calc.SetExpression(text) }); g != nil {
			g.Msg = fmt.Sprintf("SetExpression(%q): %s", text, g.Msg)
			return g
		}
		if err != nil {
			return evid.F("well-formed-rejected", "printing %d %q of a generated syntax tree was rejected: %v", i, text, err)
		}
		got := actualRPN(calc.ResultTokens())
		if strings.Join(got, " ") != strings.Join(want, " ") {
			return evid.F("wrong-post-order", "%q compiled to %v, the syntax tree's post-order is %v", text, got, want)
		}
		var gotV *variants.Variant
		var gotErr error
		// another calculator compiles something else in between: instances do not share what they compiled
		guard(func() { calculator.NewExpressionCalculator().SetExpression("1 + 2 * 3") })
		gotPanic := guard(func() { gotV, gotErr = calc.EvaluateUsingVariablesAndFunctions(makeVars(c.Vars), funcs) })
		lastCalc = calc
		results[i] = resultRepr(gotV, gotErr)
		if gotPanic != nil {
			results[i] = "PANIC"
		}
		switch {
		case wantPanic != nil || gotPanic != nil:
			// a crash inside an operator is C03/C06's subject; C01 only requires both sides to agree
			if (wantPanic != nil) != (gotPanic != nil) {
				return evid.F("panic-one-sided", "%q: direct tree evaluation panic=%v, calculator panic=%v", text, wantPanic, gotPanic)
			}
		case wantErr != nil:
			if gotErr == nil {
				return evid.F("value-where-error-expected", "%q: the calculator returned %s, direct tree evaluation fails with %v", text, results[i], wantErr)
			}
		default:
			if gotErr != nil {
				return evid.F("error-where-value-expected", "%q: the calculator failed with %v, direct tree evaluation gives %s", text, gotErr, fromVariant(wantV))
			}
			if gotV == nil {
				return evid.F("nil-result", "%q: nil result without error", text)
			}
			if !equalVal(fromVariant(gotV), fromVariant(wantV)) {
				sig := "value-mismatch"
				if gotV.Type() != wantV.Type() {
					sig = "value-mismatch:type"
				}
				return evid.F(sig, "%q with %v: the calculator returned %s, the syntax tree evaluates to %s (post-order %v)", text, c.Vars, fromVariant(gotV), fromVariant(wantV), want)
			}
		}
	}
	// the same parsed instance under a second assignment (the values rotated among the names), then the first again
	if wantPanic == nil && lastCalc != nil && len(c.Vars) > 1 {
		vars2 := make([]binding, len(c.Vars))
		for i := range c.Vars {
			vars2[i] = binding{c.Vars[i].Name, c.Vars[(i+1)%len(c.Vars)].V}
		}
		var w2, g2, g1 string
		p1 := guard(func() { v, e := evalTree(c.Tree, makeVars(vars2), funcs, ops); w2 = resultRepr(v, e) })
		p2 := guard(func() {
			v, e := lastCalc.EvaluateUsingVariablesAndFunctions(makeVars(vars2), funcs)
			g2 = resultRepr(v, e)
			v, e = lastCalc.EvaluateUsingVariablesAndFunctions(makeVars(c.Vars), funcs)
			g1 = resultRepr(v, e)
		})
		text := c.Texts[len(c.Texts)-1]
		if p1 == nil && p2 != nil {
			p2.Msg = fmt.Sprintf("%q under a second assignment %v: %s", text, vars2, p2.Msg)
			return p2
		}
		bothErr := func(a, b string) bool { return strings.HasPrefix(a, "error") && strings.HasPrefix(b, "error") }
		if p1 == nil && g2 != w2 && !bothErr(g2, w2) {
			return evid.F("value-mismatch:second-assignment", "%q parsed once: under the second assignment %v the calculator returns %s, the syntax tree evaluates to %s", text, vars2, g2, w2)
		}
		if p1 == nil && g1 != results[len(results)-1] && !bothErr(g1, results[len(results)-1]) {
			return evid.F("value-mismatch:second-assignment", "%q parsed once: back under the first assignment the calculator returns %s, before %s", text, g1, results[len(results)-1])
		}
	}
	// the same parsed instance is given the other operations manager (no new SetExpression): every node applies the
	// operation of the manager now in place, also in expressions made of constants only; then the first manager again
	if wantPanic == nil && lastCalc != nil {
		otherOps := opsManager(!c.Safe)
		var wOther, gOther, gBack string
		p1 := guard(func() { v, e := evalTree(c.Tree, makeVars(c.Vars), funcs, otherOps); wOther = resultRepr(v, e) })
		p2 := guard(func() {
			lastCalc.SetVariantOperations(otherOps)
			v, e := lastCalc.EvaluateUsingVariablesAndFunctions(makeVars(c.Vars), funcs)
			gOther = resultRepr(v, e)
			lastCalc.SetVariantOperations(ops)
			v, e = lastCalc.EvaluateUsingVariablesAndFunctions(makeVars(c.Vars), funcs)
			gBack = resultRepr(v, e)
		})
		text := c.Texts[len(c.Texts)-1]
		bothErr := func(a, b string) bool { return strings.HasPrefix(a, "error") && strings.HasPrefix(b, "error") }
		if p1 == nil && p2 == nil {
			if gOther != wOther && !bothErr(gOther, wOther) {
				return evid.F("value-mismatch:manager-switched", "%q parsed once, then SetVariantOperations(the other manager): the calculator returns %s, the syntax tree under that manager evaluates to %s", text, gOther, wOther)
			}
			if gBack != results[len(results)-1] && !bothErr(gBack, results[len(results)-1]) {
				return evid.F("value-mismatch:manager-switched", "%q parsed once: back under the first manager the calculator returns %s, before %s", text, gBack, results[len(results)-1])
			}
		}
	}
	// the caller edits the collections it passes between two evaluations of the parsed instance - the same collection
	// objects, the same number of entries: every variable and every called function is taken out and put back as a new
	// object under the same name (the variables with their values rotated, the functions wrapped so that their result
	// says so). Names are resolved against the collections as they are at the time of the call.
	if wantPanic == nil && lastCalc != nil && (len(c.Vars) > 1 || hasOp(c.Tree, "call")) {
		vc, fc := makeVars(c.Vars), c01Functions()
		var g0, g1, w1 string
		p1 := guard(func() {
			v, e := lastCalc.EvaluateUsingVariablesAndFunctions(vc, fc)
			g0 = resultRepr(v, e)
			for i := range c.Vars {
				vc.RemoveByName(c.Vars[i].Name)
			}
			for i := range c.Vars {
				vc.Add(variables.NewVariable(c.Vars[i].Name, c.Vars[(i+1)%len(c.Vars)].V.toVariant()))
			}
			var names []string
			var collect func(n *node)
			collect = func(n *node) {
				if n.Op == "call" && !strings.EqualFold(identName(n.Tok), "Sum") {
					names = append(names, identName(n.Tok))
				}
				for _, k := range n.Kids {
					collect(k)
				}
			}
			collect(c.Tree)
			for _, name := range names {
				old := fc.FindByName(name)
				if old == nil {
					continue
				}
				if _, done := old.(*replacedFunction); done {
					continue
				}
				fc.RemoveByName(name)
				fc.Add(&replacedFunction{old})
			}
			v, e = lastCalc.EvaluateUsingVariablesAndFunctions(vc, fc)
			g1 = resultRepr(v, e)
		})
		p2 := guard(func() { v, e := evalTree(c.Tree, vc, fc, ops); w1 = resultRepr(v, e) })
		text := c.Texts[len(c.Texts)-1]
		if p1 != nil && p2 == nil {
			p1.Msg = fmt.Sprintf("%q after the caller replaced the entries of its collections: %s", text, p1.Msg)
			return p1
		}
		if p1 == nil && p2 == nil && g1 != w1 && !(strings.HasPrefix(g1, "error") && strings.HasPrefix(w1, "error")) {
			return evid.F("value-mismatch:collections-edited", "%q parsed once, evaluated (%s), then every variable and called function of the SAME collection objects replaced by a new object of the same name: the calculator returns %s, the syntax tree over the collections as they are now evaluates to %s", text, g0, g1, w1)
		}
	}
	// a function collection of the caller's that is empty is not "no collection": every call is a missing function
	if wantPanic == nil && lastCalc != nil && hasOp(c.Tree, "call") {
		var v *variants.Variant
		var e error
		if g := guard(func() {
			v, e = lastCalc.EvaluateUsingVariablesAndFunctions(makeVars(c.Vars), functions.NewFunctionCollection())
		}); g == nil && e == nil {
			return evid.F("empty-function-collection-ignored", "%q evaluated with an empty function collection gives %s; every function it calls is missing there", c.Texts[len(c.Texts)-1], fromVariant(v))
		}
	}
	// the other entry points: constructor from text, default variables + Evaluate(), token-list entry
	allBound := true
	var unbound func(n *node)
	unbound = func(n *node) {
		if n.Op == "var" {
			found := false
			for _, b := range c.Vars {
				if strings.EqualFold(b.Name, identName(n.Tok)) {
					found = true
				}
			}
			allBound = allBound && found
		}
		for _, k := range n.Kids {
			unbound(k)
		}
	}
	unbound(c.Tree)
	if wantPanic == nil && len(c.Texts) > 0 && allBound {
		var r1, r2, r3, r4 string
		if g := guard(func() {
			c1, err := calculator.ExpressionCalculatorFromExpression(c.Texts[len(c.Texts)-1])
			if err != nil {
				r1 = "error: rejected"
				return
			}
			c1.SetVariantOperations(ops)
			c1.DefaultFunctions().Add(tupFunction("Tup"))
			c1.DefaultFunctions().Add(tupFunction("a"))
			for _, b := range c.Vars {
				if v := c1.DefaultVariables().FindByName(b.Name); v != nil {
					v.SetValue(b.V.toVariant())
				} else {
					c1.DefaultVariables().Add(variables.NewVariable(b.Name, b.V.toVariant()))
				}
			}
			v, e := c1.Evaluate()
			r1 = resultRepr(v, e)
			v, e = c1.EvaluateUsingVariables(nil)
			r2 = resultRepr(v, e)
			c3 := calculator.ExpressionCalculatorFromTokens(c1.OriginalTokens())
			c3.SetVariantOperations(ops)
			v, e = c3.EvaluateUsingVariablesAndFunctions(makeVars(c.Vars), funcs)
			r3 = resultRepr(v, e)
			c3.DefaultFunctions().Add(tupFunction("Tup"))
			c3.DefaultFunctions().Add(tupFunction("a"))
			v, e = c3.EvaluateUsingVariables(makeVars(c.Vars))
			r4 = resultRepr(v, e)
		}); g != nil {
			g.Msg = fmt.Sprintf("alternative entry points for %q: %s", c.Texts[len(c.Texts)-1], g.Msg)
			return g
		}
		ref := results[len(results)-1]
		for i, r := range []string{r1, r2, r3, r4} {
			if r != ref && !(strings.HasPrefix(r, "error") && strings.HasPrefix(ref, "error")) && ref != "PANIC" {
				return evid.F("entry-points-differ", "%q: SetExpression+EvaluateUsingVariablesAndFunctions gives %s, entry point #%d (FromExpression+Evaluate / EvaluateUsingVariables(nil) / FromTokens / EvaluateUsingVariables(vars)) gives %s", c.Texts[len(c.Texts)-1], ref, i+1, r)
			}
		}
	}
	// the same calculator is then given the expression with the letter case of its string literals flipped:
	// keywords and identifiers are case-insensitive, the contents of literals are not
	if flipped, changed := flipLiteralCase(c.Tree); changed && wantPanic == nil {
		text := spellPlain(printTokens(flipped, parensMinimal, nil))
		calc := calculator.NewExpressionCalculator()
		calc.SetVariantOperations(ops)
		var gotV, fV *variants.Variant
		var gotErr, fErr error
		if g := guard(func() {
			if gotErr = calc.SetExpression(c.Texts[0]); gotErr == nil {
				calc.EvaluateUsingVariablesAndFunctions(makeVars(c.Vars), funcs)
				if gotErr = calc.SetExpression(text); gotErr == nil {
					gotV, gotErr = calc.EvaluateUsingVariablesAndFunctions(makeVars(c.Vars), funcs)
				}
			}
			fV, fErr = evalTree(flipped, makeVars(c.Vars), funcs, ops)
		}); g == nil && (gotErr == nil) == (fErr == nil) && gotErr == nil && gotV != nil && fV != nil {
			if !equalVal(fromVariant(gotV), fromVariant(fV)) {
				return evid.F("value-mismatch:after-case-variant", "a calculator that first compiled %q and then %q returns %s for the latter, its syntax tree evaluates to %s", c.Texts[0], text, fromVariant(gotV), fromVariant(fV))
			}
		} else if g == nil && (gotErr == nil) != (fErr == nil) {
			return evid.F("value-mismatch:after-case-variant", "a calculator that first compiled %q and then %q: error=%v, tree evaluation error=%v", c.Texts[0], text, gotErr, fErr)
		}
	}
	// two spellings that differ only inside their string literals, one after the other on one calculator: blanks
	// inside a literal are content (one blank or two, a blank or a tab, at the start or at the end)
	if wantPanic == nil {
		type litPair struct{ first, second func(string) string }
		pre := func(p string) func(string) string { return func(b string) string { return p + b } }
		suf := func(p string) func(string) string { return func(b string) string { return b + p } }
		for k, lp := range []litPair{{pre("x "), pre("x  ")}, {suf(" "), suf("\t")}, {pre(" "), pre("\n")}, {pre("x  y"), pre("x y")}} {
			tA, chA := mapLiterals(c.Tree, lp.first)
			tB, _ := mapLiterals(c.Tree, lp.second)
			if !chA {
				break
			}
			textA, textB := spellPlain(printTokens(tA, parensMinimal, nil)), spellPlain(printTokens(tB, parensMinimal, nil))
			calc := calculator.NewExpressionCalculator()
			calc.SetVariantOperations(ops)
			var gotV, wV *variants.Variant
			var gotErr, wErr error
			if g := guard(func() {
				if gotErr = calc.SetExpression(textA); gotErr == nil {
					calc.EvaluateUsingVariablesAndFunctions(makeVars(c.Vars), funcs)
					if gotErr = calc.SetExpression(textB); gotErr == nil {
						gotV, gotErr = calc.EvaluateUsingVariablesAndFunctions(makeVars(c.Vars), funcs)
					}
				}
				wV, wErr = evalTree(tB, makeVars(c.Vars), funcs, ops)
			}); g != nil {
				continue
			}
			got, wnt := resultRepr(gotV, gotErr), resultRepr(wV, wErr)
			if got != wnt && !(gotErr != nil && wErr != nil) {
				return evid.F("value-mismatch:after-literal-variant", "a calculator that first compiled %q and then %q (literal variation %d) returns %s for the latter, its syntax tree evaluates to %s", textA, textB, k, got, wnt)
			}
		}
	}
	for i := 1; i < len(results); i++ {
		if results[i] != results[0] && !strings.HasPrefix(results[i], "error") && !strings.HasPrefix(results[0], "error") {
			return evid.F("printings-disagree", "%q = %s but %q = %s", c.Texts[0], results[0], c.Texts[i], results[i])
		}
	}
	return nil
}

func init() { regReplay("C01", checkC01) }

// structure statistics: (parent level, child level, side) pairs and the non-trivial rule
func c01Stats(n *node, labels map[string]bool) (nontrivial bool) {
	var walk func(n *node)
	walk = func(n *node) {
		plv, isBin := binLevel[n.Op]
		if n.Op == "not" {
			plv, isBin = 1, true
		}
		if n.Op == "isnull" || n.Op == "isnotnull" {
			plv, isBin = 3, true
		}
		if n.Op == "neg" || n.Op == "pos" || n.Op == "index" {
			plv, isBin = 6, true
		}
		if n.Op == "call" && len(n.Kids) >= 2 {
			nontrivial = true
			labels["call-args>=2"] = true
		}
		for i, k := range n.Kids {
			if isBin {
				clv := -1
				switch {
				case k.Op == "not":
					clv = 1
				case k.Op == "isnull" || k.Op == "isnotnull":
					clv = 3
				case k.Op == "neg" || k.Op == "pos" || k.Op == "index":
					clv = 6
				default:
					if l, ok := binLevel[k.Op]; ok {
						clv = l
					}
				}
				if clv >= 0 {
					side := "L"
					if i == 1 {
						side = "R"
					}
					labels[fmt.Sprintf("pair:%d>%d%s", plv, clv, side)] = true
					nontrivial = true
				}
			}
			walk(k)
		}
	}
	walk(n)
	return
}

func treeDepth(n *node) int {
	d := 0
	for _, k := range n.Kids {
		if kd := treeDepth(k); kd > d {
			d = kd
		}
	}
	return d + 1
}

const c01Rule = "syntax tree generated by grammar level x three printings (minimal / random redundant / full parentheses, random spacing, comments, keyword case) x variable assignment; oracle: ResultTokens equal the tree's post-order and the value equals direct node-by-node evaluation of the tree with the library's own operators in written order; non-trivial = an operator has an operator operand, or a call has >= 2 arguments; distinct by (tree, assignment)"

// variable names: one-letter and longer ones, some whose first and last characters coincide
var c01VarNames = []string{"a", "bb", "tot", "d_1", "eve"}

// C01 alone also uses a name that can only be written as a quoted identifier with two escapes
var c01AllVarNames = append(append([]string{}, c01VarNames...), "q\"r\"s", "true", "Not")

func genC01Value(t *rapid.T) val {
	switch rapid.IntRange(0, 11).Draw(t, "vk") {
	case 0, 1, 2:
		return vInt(rapid.SampledFrom([]int{0, 1, 2, 3, 5, 7, 11, 13, -1, -7, 64, 1000003}).Draw(t, "int"))
	case 3:
		return vLong(rapid.SampledFrom([]int64{0, 1, 2, 3, 17, -5, 1 << 40}).Draw(t, "long"))
	case 4:
		return vDouble(rapid.SampledFrom([]float64{0, 0.5, 1.5, 2.5, -2.5, 3, 1e10}).Draw(t, "dbl"))
	case 5:
		return vFloat(rapid.SampledFrom([]float32{0, 0.5, 1.5, 2, -3.25}).Draw(t, "flt"))
	case 6, 7:
		return vString(rapid.SampledFrom([]string{"", "a", "b", "ab", "x", "1", "2", "12", "1.5", "true", "é"}).Draw(t, "str"))
	case 8:
		return vBool(rapid.Bool().Draw(t, "bool"))
	case 9:
		return vNull()
	default:
		n := rapid.IntRange(0, 4).Draw(t, "alen")
		var els []val
		for i := 0; i < n; i++ {
			els = append(els, rapid.SampledFrom([]val{vInt(1), vInt(2), vInt(3), vString("a"), vString("1"), vNull(), vBool(true), vDouble(2.5)}).Draw(t, "ael"))
		}
		return vArray(els...)
	}
}

func c01GenCfg() *genCfg {
	return &genCfg{vars: c01AllVarNames, funcs: []string{"Tup", "Tup", "Max", "Min", "Sum", "If", "Abs", "Array", "Contains", "Choose"}, consts: defaultConst, maxArgs: 4, identGen: c01IdentGen}
}

// c01IdentGen writes an identifier plain or as a quoted identifier ("..." with doubled inner quotes); a name that
// is not a plain word can only be written quoted.
func c01IdentGen(t *rapid.T, base string) string {
	keyword := false
	for _, k := range exprKeywords {
		keyword = keyword || strings.EqualFold(k, base)
	}
	if strings.Contains(base, "\"") || keyword || rapid.IntRange(0, 7).Draw(t, "quoted") == 0 {
		return "\"" + strings.ReplaceAll(base, "\"", "\"\"") + "\""
	}
	return base
}

func TestC01_Rapid(t *testing.T) {
	rec := evid.New("C01", "TestC01_Rapid", "C01", c01Rule)
	defer finish(t, rec)
	cfg := c01GenCfg()
	runRapid(t, pick(30000, 200000), 1, func(rt *rapid.T) {
		tree := genSized(rt, cfg, rapid.SampledFrom([]int{1, 2, 3, 4, 6, 8, 12, 20, 40}).Draw(rt, "size"))
		var texts []string
		texts = append(texts, spellPlain(printTokens(tree, parensMinimal, nil)))
		texts = append(texts, spellRandom(rt, printTokens(tree, parensRandom, func() bool { return rapid.IntRange(0, 4).Draw(rt, "xp") == 0 })))
		texts = append(texts, spellRandom(rt, printTokens(tree, parensFull, nil)))
		var vars []binding
		for _, n := range c01AllVarNames {
			vars = append(vars, binding{n, genC01Value(rt)})
		}
		c := c01Case{tree, texts, vars, rapid.IntRange(0, 4).Draw(rt, "safe") == 0}
		labels := map[string]bool{}
		nt := c01Stats(tree, labels)
		ls := []string{fmt.Sprintf("depth:%d", treeDepth(tree)), fmt.Sprintf("tokens:%d0+", len(printTokens(tree, parensMinimal, nil))/10)}
		for l := range labels {
			ls = append(ls, l)
		}
		rec.Case(jsonStr(c.Tree)+jsonStr(c.Vars), nt, func() interface{} { return map[string]interface{}{"texts": texts, "vars": fmt.Sprint(vars)} }, ls...)
		if f := checkC01(c); f != nil {
			if rec.Fail(f, c) {
				rt.Fatalf("%v", f)
			}
		}
	})
	if thorough() {
		// every (parent level, child level, side) combination the grammar allows through parentheses
		var need []string
		for _, p := range []int{0, 2, 3, 4, 5} {
			for _, c := range []int{0, 2, 3, 4, 5, 6} {
				need = append(need, fmt.Sprintf("pair:%d>%dL", p, c), fmt.Sprintf("pair:%d>%dR", p, c))
			}
		}
		requireLabels(t, rec, need...)
	}
	requireLabels(t, rec, "call-args>=2", "pair:3>4R", "pair:4>3L", "pair:5>5L", "pair:0>1R")
}

func TestC01_Exhaustive(t *testing.T) {
	rec := evid.New("C01", "TestC01_Exhaustive", "C01", c01Rule)
	rec.Exhaustive = true
	rec.DupFree = true
	defer finish(t, rec)
	maxLen := pick(5, 6)
	rec.Bounds = fmt.Sprintf("every token string of length 1..%d over the 17-class alphabet {1 a ( ) [ ] , - * ^ = AND NOT IS NULL IN LIKE} that the reference grammar accepts, under two fixed assignments (a = 3; a = [1, 2, 'x'])", maxLen)
	alpha := make([]string, len(c02Alphabet))
	byName := map[string]etok{}
	for i, a := range c02Alphabet {
		alpha[i] = a.S
		byName[a.S] = a
	}
	assignments := [][]binding{{{"a", vInt(3)}}, {{"a", vArray(vInt(1), vInt(2), vString("x"))}}}
	enumStrings(alpha, maxLen, false, func(parts []string) {
		toks := make([]etok, len(parts))
		for i, p := range parts {
			toks[i] = byName[p]
		}
		tree, _ := refParse(toks)
		if tree == nil {
			return
		}
		text := spellPlain(toks)
		for ai, as := range assignments {
			c := c01Case{tree, []string{text}, as, false}
			labels := map[string]bool{}
			nt := c01Stats(tree, labels)
			rec.Case(fmt.Sprintf("%d|%s", ai, text), nt, func() interface{} { return map[string]interface{}{"text": text, "vars": fmt.Sprint(as)} })
			if f := checkC01(c); f != nil {
				rec.Fail(f, c)
			}
		}
	})
}

// mapLiterals copies the tree with f applied to the body (the text between the quotes, escapes as written) of every
// string literal.
func mapLiterals(n *node, f func(body string) string) (*node, bool) {
	cp := *n
	changed := false
	if n.Op == "const" && strings.HasPrefix(n.Tok, "'") && strings.HasSuffix(n.Tok, "'") && len(n.Tok) >= 2 {
		cp.Tok = "'" + f(n.Tok[1:len(n.Tok)-1]) + "'"
		changed = true
	}
	cp.Kids = nil
	for _, k := range n.Kids {
		kc, ch := mapLiterals(k, f)
		cp.Kids = append(cp.Kids, kc)
		changed = changed || ch
	}
	return &cp, changed
}

// flipLiteralCase copies the tree with the ASCII letter case of every string literal flipped.
func flipLiteralCase(n *node) (*node, bool) {
	cp := *n
	changed := false
	if n.Op == "const" && strings.HasPrefix(n.Tok, "'") {
		var sb strings.Builder
		for _, r := range n.Tok {
			switch {
			case r >= 'a' && r <= 'z':
				sb.WriteRune(r - 32)
				changed = true
			case r >= 'A' && r <= 'Z':
				sb.WriteRune(r + 32)
				changed = true
			default:
				sb.WriteRune(r)
			}
		}
		cp.Tok = sb.String()
	}
	cp.Kids = nil
	for _, k := range n.Kids {
		kc, ch := flipLiteralCase(k)
		cp.Kids = append(cp.Kids, kc)
		changed = changed || ch
	}
	return &cp, changed
}

// ---------------------------------------------------------------------------------------
// Sizes: argument lists, operator chains and nestings of 15 .. 1000 items (around the powers of two), described rather
// than spelled out. The expected value is plain integer arithmetic of the written expression.

type c01BigCase struct {
	Shape string `json:"shape"` // args | argsComputed | leftChain | rightChain | parens | nestedCalls
	N     int    `json:"n"`
	Safe  bool   `json:"safe"`
}

func (c c01BigCase) build() (text string, want val) {
	n := c.N
	var sb strings.Builder
	switch c.Shape {
	case "args", "argsComputed":
		els := make([]val, n)
		sb.WriteString("Tup(")
		for i := 1; i <= n; i++ {
			if i > 1 {
				sb.WriteString(", ")
			}
			if c.Shape == "args" {
				fmt.Fprintf(&sb, "%d", i)
			} else {
				fmt.Fprintf(&sb, "%d + %d * 2", i%3, i) // a computation among the pending values
			}
			els[i-1] = vInt(i)
			if c.Shape == "argsComputed" {
				els[i-1] = vInt(i%3 + i*2)
			}
		}
		sb.WriteString(")")
		return sb.String(), vArray(els...)
	case "leftChain":
		for i := 1; i <= n; i++ {
			if i > 1 {
				sb.WriteString(" + ")
			}
			fmt.Fprintf(&sb, "%d", i)
		}
		return sb.String(), vInt(n * (n + 1) / 2)
	case "rightChain":
		// 1 - (2 - (3 - ... (n * 2)))
		acc := n * 2
		for i := n - 1; i >= 1; i-- {
			acc = i - acc
		}
		for i := 1; i < n; i++ {
			fmt.Fprintf(&sb, "%d - (", i)
		}
		fmt.Fprintf(&sb, "%d * 2", n)
		sb.WriteString(strings.Repeat(")", n-1))
		return sb.String(), vInt(acc)
	case "parens":
		return strings.Repeat("(", n) + "7" + strings.Repeat(")", n) + " + 1", vInt(8)
	case "nestedCalls":
		for i := 1; i < n; i++ {
			fmt.Fprintf(&sb, "Max(%d, ", i)
		}
		fmt.Fprintf(&sb, "%d", n)
		sb.WriteString(strings.Repeat(")", n-1))
		return sb.String(), vInt(n)
	}
	return "", vNull()
}

func checkC01Big(c c01BigCase) (res *evid.Fail) {
	text, want := c.build()
	desc := fmt.Sprintf("%s of %d items", c.Shape, c.N)
	if g := guard(func() {
		calc := calculator.NewExpressionCalculator()
		calc.SetVariantOperations(opsManager(c.Safe))
		if err := calc.SetExpression(text); err != nil {
			res = evid.F("well-formed-rejected:sizes", "%s (%.80s ...) was rejected: %v", desc, text, err)
			return
		}
		for round := 1; round <= 2; round++ {
			v, err := calc.EvaluateUsingVariablesAndFunctions(nil, c01Functions())
			if err != nil || v == nil {
				res = evid.F("error-where-value-expected:sizes", "%s (%.80s ...), evaluation %d: %v", desc, text, round, err)
				return
			}
			if got := fromVariant(v); !equalVal(got, want) {
				g, w := got.String(), want.String()
				if len(g) > 200 {
					g, w = g[:100]+" ... "+g[len(g)-100:], w[:100]+" ... "+w[len(w)-100:]
				}
				res = evid.F("value-mismatch:sizes:"+c.Shape, "%s (%.80s ...), evaluation %d: the calculator returned %s, the written expression denotes %s", desc, text, round, g, w)
				return
			}
		}
	}); g != nil {
		g.Msg = desc + ": " + g.Msg
		return g
	}
	return res
}

func init() { regReplay("C01.big", checkC01Big) }

func TestC01_EnumSizes(t *testing.T) {
	rec := evid.New("C01", "TestC01_EnumSizes", "C01.big", "sizes: calls with N plain and N computed arguments (the harness function returns its arguments as an array), left and right operator chains of N operands, N nested parentheses, N nested calls, N = 15..17, 31..33, 63..65, 127..129, 255..257, 1000, x 2 managers, each evaluated twice; oracle: integer arithmetic of the written expression; distinct by case")
	rec.Exhaustive = true
	rec.DupFree = true
	defer finish(t, rec)
	var cases []c01BigCase
	for _, shape := range []string{"args", "argsComputed", "leftChain", "rightChain", "parens", "nestedCalls"} {
		for _, n := range []int{15, 16, 17, 31, 32, 33, 63, 64, 65, 127, 128, 129, 255, 256, 257, 1000} {
			for _, safe := range []bool{false, true} {
				cases = append(cases, c01BigCase{shape, n, safe})
			}
		}
	}
	rec.Bounds = fmt.Sprintf("%d described expressions", len(cases))
	parallelFor(len(cases), func(i int) {
		c := cases[i]
		rec.Case(jsonStr(c), true, func() interface{} { return c }, "shape:"+c.Shape)
		if f := checkC01Big(c); f != nil {
			rec.Fail(f, c)
		}
	})
}
