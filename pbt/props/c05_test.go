package props

import (
	"fmt"
	ctok "github.com/pip-services3-gox/pip-services3-expressions-gox/calculator/tokenizers"
	"time"

	cerrors "github.com/pip-services3-gox/pip-services3-commons-gox/errors"
	"strings"
	"testing"

	"github.com/pip-services3-gox/pip-services3-expressions-gox/calculator"
	"github.com/pip-services3-gox/pip-services3-expressions-gox/calculator/functions"
	cparsers "github.com/pip-services3-gox/pip-services3-expressions-gox/calculator/parsers"
	"github.com/pip-services3-gox/pip-services3-expressions-gox/calculator/variables"
	"github.com/pip-services3-gox/pip-services3-expressions-gox/csv"
	rio "github.com/pip-services3-gox/pip-services3-expressions-gox/io"
	"github.com/pip-services3-gox/pip-services3-expressions-gox/mustache"
	mparsers "github.com/pip-services3-gox/pip-services3-expressions-gox/mustache/parsers"
	"github.com/pip-services3-gox/pip-services3-expressions-gox/tokenizers"
	"github.com/pip-services3-gox/pip-services3-expressions-gox/tokenizers/generic"
	"github.com/pip-services3-gox/pip-services3-expressions-gox/variants"
	"pgregory.net/rapid"
	"verif/pbt/evid"
)

// C05 — reused instances give history-independent results.

type c05Step struct {
	Input   string `json:"input"`
	Abort   int    `json:"abort"`   // tokenizers: fetch only this many tokens (-1 = all)
	HasNext int    `json:"hasNext"` // tokenizers: HasNextToken calls before every NextToken
	Fn      int    `json:"fn"`      // calculator: which user function list the evaluation gets (Fx, Gx differ per list)
	// tokenizers: the entry point used for this feed (0 = NextToken loop, 1 = TokenizeBuffer, 2 = TokenizeBufferToStrings,
	// 3 = TokenizeStreamToStrings, 4 = TokenizeStream). Parsers, calculator, template: 1 = Clear() is called before
	// the feed ("cleans up ... from all data"), 3 = Clear() and automatic variables switched off for this feed; 4 (expression parser, may be
	// combined) = also through ParseTokens, one list object twice. CSV tokenizers: 8 = rejected configuration calls first.
	Mode int `json:"mode,omitempty"`
	// tokenizers: k > 0 = before this feed the caller switches the instance to option set (k-1) & 127, calling the seven
	// option setters in the rotation that ends with setter ((k-1) >> 7) % 7; the fresh instance is constructed with that
	// option set. 0 = the options stay as they are.
	Reopt int `json:"reopt,omitempty"`
}

// setOptionsRotated calls the seven option setters starting behind setter `last` and ending with it.
func setOptionsRotated(t tokenizers.ITokenizer, bits int, last int) {
	setters := []func(){
		func() { t.SetSkipUnknown(bits&optSkipUnknown != 0) },
		func() { t.SetSkipWhitespaces(bits&optSkipWhitespaces != 0) },
		func() { t.SetSkipComments(bits&optSkipComments != 0) },
		func() { t.SetSkipEof(bits&optSkipEof != 0) },
		func() { t.SetMergeWhitespaces(bits&optMergeWhitespaces != 0) },
		func() { t.SetUnifyNumbers(bits&optUnifyNumbers != 0) },
		func() { t.SetDecodeStrings(bits&optDecodeStrings != 0) },
	}
	for i := 1; i <= len(setters); i++ {
		setters[(last+i)%len(setters)]()
	}
}

// userFunctions returns function list j: Fx() = 10*j+1, Gx(a) = [j, a].
func userFunctions(j int) functions.IFunctionCollection {
	fc := functions.NewDefaultFunctionCollection()
	fc.Add(functions.NewDelegatedFunction("Fx", func(p []*variants.Variant, o variants.IVariantOperations) (*variants.Variant, error) {
		return variants.VariantFromInteger(10*j + 1), nil
	}))
	fc.Add(functions.NewDelegatedFunction("Gx", func(p []*variants.Variant, o variants.IVariantOperations) (*variants.Variant, error) {
		return variants.VariantFromArray(append([]*variants.Variant{variants.VariantFromInteger(j)}, p...)), nil
	}))
	fc.Add(functions.NewDelegatedFunction("Ex", func(p []*variants.Variant, o variants.IVariantOperations) (*variants.Variant, error) {
		return nil, sentinelError // one error object owned by the caller, returned by every failing call
	}))
	return fc
}

var sentinelError = cerrors.NewBadRequestError("", "USER_FAILURE", "the user function failed")

type c05Case struct {
	Kind  string    `json:"kind"` // generic expression csv mustache | exprparser calculator mustacheparser template
	Opts  int       `json:"opts"` // tokenizers: option set used for the whole history (-1 = as constructed)
	Steps []c05Step `json:"steps"`
}

var c05Kinds = []string{"generic", "expression", "csv", "mustache", "exprparser", "calculator", "mustacheparser", "template", "csv-custom", "generic-custom"}

// one value of every scalar type: an operator that writes into an operand changes what the next feed reads
var c05Vars = []binding{{"a", vLong(3)}, {"b", vInt(4)}, {"c", vString("x")}, {"d", vArray(vInt(1), vInt(2))}, {"e", vNull()}, {"x", vFloat(7)}, {"y", vDouble(2.5)}, {"f", vBool(true)},
	{"g", vSpan(1500 * time.Millisecond)}, {"h", vInt(-9)}}
var c05Map = map[string]string{"a": "A", "b": "", "c": "x/y", "name": "N", "if": "I"}

// c05VarsRotated: the variable values moved on by n places among the names.
func c05VarsRotated(n int) []binding {
	out := make([]binding, len(c05Vars))
	for i := range c05Vars {
		out[i] = binding{c05Vars[i].Name, c05Vars[(i+n)%len(c05Vars)].V}
	}
	return out
}

// c05Instance wraps one reusable instance; run returns the observation for an input.
type c05Instance struct {
	kind string
	tok  tokenizers.ITokenizer
	ep   *cparsers.ExpressionParser
	calc *calculator.ExpressionCalculator
	mp   *mparsers.MustacheParser
	tmpl *mustache.MustacheTemplate
	vars *variables.VariableCollection
	opts int
	rot  int // calculator: how often the caller has replaced the variables of its collection (values rotated)
	// set by run: the second pass over the rewound scanner object gave other tokens than the first
	rescan string
	// set by run: something the instance did contradicts what it did a moment earlier in the same feed
	selfcheck string
}

func newC05Instance(kind string, opts int) *c05Instance {
	in := &c05Instance{kind: kind, opts: opts}
	switch kind {
	case "generic", "expression", "csv", "mustache":
		in.tok = newTokenizer(kind)
		if opts >= 0 {
			setOptions(in.tok, opts)
		}
	case "csv-custom":
		// non-Latin separators and quotes: overlapping registrations above U+00FF in the character maps
		ct := csv.NewCsvTokenizer()
		ct.SetFieldSeparators([]rune{'，', ';', '‖'})
		ct.SetQuoteSymbols([]rune{'«', '"', '“'})
		in.tok = ct
		if opts >= 0 {
			setOptions(in.tok, opts)
		}
	case "generic-custom":
		gt := generic.NewGenericTokenizer()
		gt.SymbolState().Add("≠", tokenizers.Symbol)
		gt.SymbolState().Add("≤≥", tokenizers.Symbol)
		gt.SymbolState().Add("→", tokenizers.Symbol)
		// four-character symbols that share their first three characters (the prefixes are no symbols)
		gt.SymbolState().Add("--->", tokenizers.Symbol)
		gt.SymbolState().Add("---o", tokenizers.Symbol)
		gt.SymbolState().Add("---x", tokenizers.Symbol)
		gt.SetCharacterState('≠', '≥', gt.SymbolState())
		gt.SetCharacterState('→', '→', gt.SymbolState())
		gt.SetCharacterState(0x3000, 0x303f, gt.WhitespaceState())
		in.tok = gt
		if opts >= 0 {
			setOptions(in.tok, opts)
		}
	case "exprparser":
		in.ep = cparsers.NewExpressionParser()
	case "calculator":
		in.calc = calculator.NewExpressionCalculator()
	case "mustacheparser":
		in.mp = mparsers.NewMustacheParser()
	case "template":
		in.tmpl = mustache.NewMustacheTemplate()
	}
	return in
}

func exprTokensRepr(ts []*cparsers.ExpressionToken) string {
	parts := make([]string, len(ts))
	for i, t := range ts {
		parts[i] = fmt.Sprintf("%d:%s@%d:%d", t.Type(), fromVariant(t.Value()).String(), t.Line(), t.Column())
	}
	return strings.Join(parts, " ")
}

func mustacheTokensRepr(ts []*mparsers.MustacheToken) string {
	parts := make([]string, len(ts))
	for i, t := range ts {
		parts[i] = fmt.Sprintf("%d:%q@%d:%d{%s}", t.Type(), t.Value(), t.Line(), t.Column(), mustacheTokensRepr(t.Tokens()))
	}
	return strings.Join(parts, " ")
}

func errRepr(err error) string {
	if err == nil {
		return "ok"
	}
	return "error: " + err.Error()
}

// run feeds one input and returns what the property lets a caller observe.
func (in *c05Instance) run(st c05Step) (obs string) {
	f := guard(func() {
		switch in.kind {
		case "generic", "expression", "csv", "mustache", "csv-custom", "generic-custom":
			if st.Reopt > 0 {
				setOptionsRotated(in.tok, (st.Reopt-1)&127, ((st.Reopt-1)>>7)%7)
			}
			if st.Mode == 8 {
				// a configuration call the tokenizer rejects (a separator that is a quote symbol), then the accepted
				// configuration set again: nothing of the rejected call stays behind
				if ct, ok := in.tok.(*csv.CsvTokenizer); ok {
					func() {
						defer func() { recover() }()
						ct.SetFieldSeparators([]rune{'#', ct.QuoteSymbols()[0]})
					}()
					func() {
						defer func() { recover() }()
						ct.SetQuoteSymbols([]rune{'$', ct.FieldSeparators()[0]})
					}()
					ct.SetQuoteSymbols(append([]rune{}, ct.QuoteSymbols()...))
					ct.SetFieldSeparators(append([]rune{}, ct.FieldSeparators()...))
				}
				st.Mode = 0
			}
			if st.Mode != 0 {
				var toks []tk
				switch st.Mode {
				case 1:
					for _, t := range in.tok.TokenizeBuffer(st.Input) {
						toks = append(toks, tk{t.Type(), t.Value(), t.Line(), t.Column()})
					}
				case 4:
					for _, t := range in.tok.TokenizeStream(rio.NewStringScanner(st.Input)) {
						toks = append(toks, tk{t.Type(), t.Value(), t.Line(), t.Column()})
					}
				case 2:
					obs = fmt.Sprintf("strings %q", in.tok.TokenizeBufferToStrings(st.Input))
					return
				default:
					obs = fmt.Sprintf("strings %q", in.tok.TokenizeStreamToStrings(rio.NewStringScanner(st.Input)))
					return
				}
				obs = tksString(toks)
				return
			}
			in.tok.SetReader(rio.NewStringScanner(st.Input))
			var toks []tk
			limit := len([]rune(st.Input)) + 2
			for st.Abort < 0 || len(toks) < st.Abort {
				for i := 0; i < st.HasNext; i++ {
					in.tok.HasNextToken()
				}
				t := in.tok.NextToken()
				if t == nil || len(toks) > limit {
					break
				}
				toks = append(toks, tk{t.Type(), t.Value(), t.Line(), t.Column()})
			}
			if st.Abort >= 0 && st.HasNext > 0 {
				in.tok.HasNextToken() // the iteration is abandoned with a peeked, unfetched token pending
			}
			obs = tksString(toks)
			if st.Abort < 0 {
				// the same scanner object, rewound and handed to the tokenizer again, must give the same tokens
				sc := rio.NewStringScanner(st.Input)
				first := in.tok.TokenizeStream(sc)
				sc.Reset()
				second := in.tok.TokenizeStream(sc)
				same := len(first) == len(second)
				for i := 0; same && i < len(first); i++ {
					same = first[i].Type() == second[i].Type() && first[i].Value() == second[i].Value() && first[i].Line() == second[i].Line() && first[i].Column() == second[i].Column()
				}
				if !same {
					in.rescan = fmt.Sprintf("second pass over the rewound scanner gives %d tokens, the first %d", len(second), len(first))
					obs += " | rescan differs"
				}
			}
		case "exprparser":
			if st.Mode&1 != 0 {
				in.ep.Clear()
			}
			err := in.ep.ParseString(st.Input)
			obs = errRepr(err)
			if err == nil {
				obs += " | " + exprTokensRepr(in.ep.ResultTokens()) + " | vars " + strings.Join(in.ep.VariableNames(), ",") + " | initial " + exprTokensRepr(in.ep.InitialTokens())
			}
			if st.Mode&4 != 0 {
				// the token-list entry: one list object (blanks kept) handed over twice
				et := ctok.NewExpressionTokenizer()
				et.SetSkipEof(true)
				et.SetSkipComments(true)
				et.SetDecodeStrings(true)
				list := et.TokenizeBuffer(st.Input)
				snapshot := append([]*tokenizers.Token{}, list...)
				e1 := in.ep.ParseTokens(list)
				r1 := errRepr(e1) + " " + exprTokensRepr(in.ep.ResultTokens())
				e2 := in.ep.ParseTokens(list)
				r2 := errRepr(e2) + " " + exprTokensRepr(in.ep.ResultTokens())
				same := len(list) == len(snapshot)
				for i := 0; same && i < len(list); i++ {
					same = list[i] == snapshot[i]
				}
				if r1 != r2 || !same {
					in.selfcheck = fmt.Sprintf("the token list of %q handed to ParseTokens twice: first %s, then %s (list unchanged: %v)", st.Input, r1, r2, same)
				}
				obs += " | via tokens " + r1
			}
		case "calculator":
			if st.Mode&1 != 0 {
				in.calc.Clear()
				in.calc.SetAutoVariables(st.Mode&2 == 0)
			} else {
				in.calc.SetAutoVariables(true)
			}
			err := in.calc.SetExpression(st.Input)
			obs = errRepr(err)
			if st.Mode&1 != 0 {
				// after Clear the default variables are those of this expression alone
				var names []string
				for _, v := range in.calc.DefaultVariables().GetAll() {
					names = append(names, v.Name())
				}
				obs += " | default variables [" + strings.Join(names, ",") + "]"
			}
			if err == nil {
				obs += " | " + exprTokensRepr(in.calc.ResultTokens())
				if in.vars == nil {
					in.vars = makeVars(c05VarsRotated(in.rot)) // one collection per instance: values live on between feeds
				}
				if st.Mode&16 != 0 {
					// between two evaluations of this expression the caller takes every variable out of its collection and
					// puts a new object of the same name in, the values moved on by one place
					in.calc.EvaluateUsingVariablesAndFunctions(in.vars, userFunctions(st.Fn))
					in.rot++
					bs := c05VarsRotated(in.rot)
					for _, b := range bs {
						in.vars.RemoveByName(b.Name)
					}
					for _, b := range bs {
						in.vars.Add(variables.NewVariable(b.Name, b.V.toVariant()))
					}
				}
				v, e := in.calc.EvaluateUsingVariablesAndFunctions(in.vars, userFunctions(st.Fn))
				obs += " | " + resultRepr(v, e)
				if e == nil && v != nil {
					// the caller files the result in a collection of its own and later clears that collection's values:
					// the compiled expression still evaluates to what it evaluated to
					before := resultRepr(v, e)
					keep := variables.NewVariableCollection()
					keep.Add(variables.NewVariable("kept", v))
					keep.ClearValues()
					v2, e2 := in.calc.EvaluateUsingVariablesAndFunctions(in.vars, userFunctions(st.Fn))
					if after := resultRepr(v2, e2); after != before {
						in.selfcheck = fmt.Sprintf("%q evaluated to %s; after the caller stored that result in a collection and cleared the collection's values it evaluates to %s", st.Input, before, after)
					}
				}
				// automatic variables are Null in a fresh and in a reused calculator alike
				v, e = in.calc.Evaluate()
				obs += " | defaults: " + resultRepr(v, e)
			}
		case "mustacheparser":
			if st.Mode&1 != 0 {
				in.mp.Clear()
			}
			if st.Mode&4 != 0 {
				// a hand-made token list whose one value spells the text (plain text as far as its type says) comes first
				in.mp.ParseTokens([]*tokenizers.Token{tokenizers.NewToken(tokenizers.Special, strings.Trim(st.Input, " \t\r\n"), 1, 1)})
			}
			err := in.mp.ParseString(st.Input)
			obs = errRepr(err)
			if err == nil {
				obs += " | " + mustacheTokensRepr(in.mp.ResultTokens()) + " | vars " + strings.Join(in.mp.VariableNames(), ",")
			}
		case "template":
			if st.Mode&1 != 0 {
				in.tmpl.Clear()
				in.tmpl.SetAutoVariables(st.Mode&2 == 0)
			} else {
				in.tmpl.SetAutoVariables(true)
			}
			if st.Mode&4 != 0 {
				in.tmpl.SetOriginalTokens([]*tokenizers.Token{tokenizers.NewToken(tokenizers.Special, strings.Trim(st.Input, " \t\r\n"), 1, 1)})
			}
			err := in.tmpl.SetTemplate(st.Input)
			obs = errRepr(err)
			if st.Mode&1 != 0 {
				obs += " | default variables " + sortedMap(in.tmpl.DefaultVariables())
				if err == nil {
					s, e := in.tmpl.Evaluate()
					obs += fmt.Sprintf(" | defaults render %q %s", s, errRepr(e))
				}
			}
			if err == nil {
				s, e := in.tmpl.EvaluateWithVariables(c05Map)
				obs += fmt.Sprintf(" | %q %s", s, errRepr(e))
			}
		}
	})
	if f != nil {
		return "PANIC " + f.Sig
	}
	return obs
}

func checkC05(c c05Case) *evid.Fail {
	reused := newC05Instance(c.Kind, c.Opts)
	curOpts := c.Opts
	for i, st := range c.Steps {
		if st.Reopt > 0 && reused.tok != nil {
			curOpts = (st.Reopt - 1) & 127
		}
		got := reused.run(st)
		if reused.selfcheck != "" {
			return evid.F("inconsistent-within-a-feed:"+c.Kind, "%s instance: %s", c.Kind, reused.selfcheck)
		}
		// the fresh instance fetches without asking first: how often the presence of a next token was queried
		// must not matter either
		plain := st
		plain.HasNext = 0
		if plain.Mode == 8 {
			plain.Mode = 0 // the fresh instance never sees the rejected configuration calls
		}
		plain.Reopt = 0
		fresh := newC05Instance(c.Kind, curOpts)
		fresh.rot = reused.rot // the same variable values, in a collection that has no history
		plain.Mode &^= 16
		if c.Kind == "mustacheparser" || c.Kind == "template" {
			plain.Mode &^= 4
		}
		want := fresh.run(plain)
		if fresh.rescan != "" {
			return evid.F("rescan-differs:"+c.Kind, "%s instance, input %q: %s; %s", c.Kind, st.Input, fresh.rescan, want)
		}
		if got != want {
			var hist []string
			for _, p := range c.Steps[:i] {
				h := fmt.Sprintf("%q", p.Input)
				if p.Abort >= 0 {
					h += fmt.Sprintf("(aborted after %d)", p.Abort)
				}
				hist = append(hist, h)
			}
			sig := "history-dependent:" + c.Kind
			if strings.HasPrefix(got, "PANIC") || strings.HasPrefix(want, "PANIC") {
				sig += ":panic-differs"
			} else if st.HasNext > 0 && i == 0 {
				sig += ":has-next-queries"
			}
			return evid.F(sig, "%s instance, step %d input %q (hasNext x%d, abort %d) after history [%s]: reused gives %s ; fresh gives %s",
				c.Kind, i, st.Input, st.HasNext, st.Abort, strings.Join(hist, ", "), got, want)
		}
	}
	return nil
}

func init() { regReplay("C05", checkC05) }

// the pool: every registered multi-character symbol alone and in context, every token class,
// unterminated literals, malformed expressions / templates, multi-line text
var c05Pool = []string{
	"<=", "<>", "<<", ">=", ">>", "!=", "a<=b", "a<>b", "a<<b", "a>=b", "a>>2", "a!=b", "1<2", "a<b>c",
	"{{", "}}", "{{{", "}}}", "{{a}}", "{{{a}}}", "x{{a}}y", "{{#a}}in{{/a}}", "{{^b}}no{{/b}}", "{{#if a}}1{{/if}}", "{{! c }}t",
	"a", "abc", "A1_b", "é", "中文", "1", "12.5", ".5", "-3", "1e5", "2.5E-3", "'s'", "'a''b'", "\"q\"", "'é'", "/* c */ 1", "# c\n1", "x // y",
	" ", " \t\n ", "a b", "a\nb\r\nc", "a+b*2", "(a+b)*x", "d[1]", "Min(a,b,x)", "a IS NOT NULL", "x NOT IN d", "NOT f", "a LIKE c", "-a", "c+c",
	"名，b", "，", "a，b‖c;d", "«x，y»，z", "名", "a ≠ b ≤≥ c → d", "≤", "x　y", "日本語 テスト",
	"-y", "-x - a", "-b + -h", "-g", "NOT f", "Abs(h) + Abs(a)", "a % 2 + b ^ 2", "b << 1", "h >> 1",
	"Round(y) + Floor(y)", "y * 2", "Ceil(y) - y", "Abs(y) + Trunc(y)", "Hello, {{ name }}!", "text only",
	"c = 'x'", "c = 'X'", "'abc' + c", "'ABC' + c", "{{Name}} x", "{{name}} X", "Fx() + a", "Gx(b)", "Gx(Fx(), c)", "v1 + v2 * total", "Total + rate", "\"qty[1]\" + \"qty{1}\"",
	"y ^ 2", "x ^ 2 + y ^ b", "\ufeffid,city", "\ufeff", "a --->b ---o c", "--->", "---x ---o", "---",
	"'abc", "\"abc", "/* x", "{{a", "{{#a}}x", "{{/a}}", "a +", "(a", "a)", "a[1", "f(", "1 2", "a,,b", ",", "\r\n", "\n\r", "\"x\",\"y\"\r\nz", "a;b", "😀", "a 😀 b", "{{ 😀 }}", "",
}

const c05Rule = "one reused instance (4 tokenizers, ExpressionParser, ExpressionCalculator, MustacheParser, MustacheTemplate) is fed a history of inputs (some iterations aborted early, HasNextToken queried repeatedly); after every feed its observable output (tokens with positions / compiled program / variable names / error text / value under an explicit variable set / rendering) must equal that of a freshly constructed instance; non-trivial = the feed follows an aborted or failed feed, shares a symbol prefix with its predecessor, or is interleaved with >= 2 has-next queries; distinct by (kind, options, history)"

func c05NonTrivial(c c05Case) bool {
	for i, st := range c.Steps {
		if st.HasNext >= 2 {
			return true
		}
		if i == 0 {
			continue
		}
		p := c.Steps[i-1]
		if p.Abort >= 0 {
			return true
		}
		for _, sym := range []string{"<", ">", "!", "{", "}"} {
			if strings.Contains(p.Input, sym) && strings.Contains(st.Input, sym) {
				return true
			}
		}
		if strings.ContainsAny(p.Input, "'\"/(") { // unterminated / malformed predecessors
			return true
		}
	}
	return false
}

func c05Run(rec *evid.Recorder, c c05Case) bool {
	rec.Case(jsonStr(c), c05NonTrivial(c), func() interface{} { return c }, "kind:"+c.Kind)
	if f := checkC05(c); f != nil {
		return rec.Fail(f, c)
	}
	return false
}

func TestC05_Exhaustive(t *testing.T) {
	rec := evid.New("C05", "TestC05_Exhaustive", "C05", c05Rule)
	rec.Exhaustive = true
	rec.DupFree = true
	defer finish(t, rec)
	triples := pick(10, 400)
	rec.Bounds = fmt.Sprintf("every ordered pair of the %d-input pool x 8 instance kinds (tokenizers as constructed and with all options off), plus per pair %d seeded third inputs (triples), plus every pair with the first feed aborted after 1 token and 2 has-next queries per token",
		len(c05Pool), triples/len(c05Kinds))
	n := len(c05Pool)
	parallelFor(n*n, func(i int) {
		a, b := c05Pool[i/n], c05Pool[i%n]
		x := verifSeed()*7919 + uint64(i)
		for _, kind := range c05Kinds {
			optSets := []int{-1}
			isTok := kind == "generic" || kind == "expression" || kind == "csv" || kind == "mustache" || kind == "csv-custom" || kind == "generic-custom"
			if isTok && thorough() {
				optSets = []int{-1, 0}
			}
			for _, o := range optSets {
				c05Run(rec, c05Case{kind, o, []c05Step{{a, -1, 0, 0, 0, 0}, {b, -1, 0, 1, 0, 0}}})
				if isTok {
					c05Run(rec, c05Case{kind, o, []c05Step{{a, 1, 2, 0, 0, 0}, {b, -1, 0, 0, 0, 0}}})
					c05Run(rec, c05Case{kind, o, []c05Step{{a, -1, 0, 0, 0, 0}, {b, -1, 3, 0, 0, 0}}})
					// the other entry points on a used instance (after a complete and after an abandoned feed)
					c05Run(rec, c05Case{kind, o, []c05Step{{a, -1, 0, 0, 0, 0}, {b, -1, 0, 0, 1 + i%4, 0}}})
					c05Run(rec, c05Case{kind, o, []c05Step{{a, 1, 1, 0, 0, 0}, {b, -1, 0, 0, 1 + (i/4)%4, 0}}})
					// the options are switched between the feeds (every option set x every last-called setter, spread over the pairs)
					c05Run(rec, c05Case{kind, o, []c05Step{{Input: a, Abort: -1}, {Input: b, Abort: -1, Mode: (i / 7) % 5, Reopt: 1 + (i*31+len(kind))%896}}})
					c05Run(rec, c05Case{kind, o, []c05Step{{Input: a, Abort: -1, Mode: 1, Reopt: 1 + (i*17)%896}, {Input: a, Abort: -1, Mode: 1, Reopt: 1 + (i%7)<<7}}})
				} else {
					// Clear() between the feeds (with and without automatic variables afterwards)
					c05Run(rec, c05Case{kind, o, []c05Step{{a, -1, 0, 0, 0, 0}, {b, -1, 0, 1, 1 + 2*(i%2), 0}}})
					if kind == "exprparser" {
						c05Run(rec, c05Case{kind, o, []c05Step{{a, -1, 0, 0, 4, 0}, {b, -1, 0, 0, 4, 0}}})
					}
					if kind == "mustacheparser" || kind == "template" {
						c05Run(rec, c05Case{kind, o, []c05Step{{a, -1, 0, 0, 4, 0}, {b, -1, 0, 0, 4 * (i % 2), 0}}})
					}
					if kind == "calculator" {
						c05Run(rec, c05Case{kind, o, []c05Step{{a, -1, 0, 0, 16, 0}, {b, -1, 0, 1, 16 * (i % 2), 0}}})
					}
				}
				if kind == "csv" || kind == "csv-custom" {
					c05Run(rec, c05Case{kind, o, []c05Step{{a, -1, 0, 0, 0, 0}, {b, -1, 0, 0, 8, 0}}})
				}
			}
			for k := 0; k < triples/len(c05Kinds); k++ {
				third := c05Pool[int(splitmix(&x)%uint64(n))]
				c05Run(rec, c05Case{kind, -1, []c05Step{{a, -1, 0, 0, 0, 0}, {b, -1, 0, 1, 0, 0}, {third, -1, 0, 0, 0, 0}}})
			}
		}
	})
}

func TestC05_RapidSM(t *testing.T) {
	rec := evid.New("C05", "TestC05_RapidSM", "C05", c05Rule+"; rapid: histories of 2..10 feeds from the pool or mutated pool entries")
	defer finish(t, rec)
	runRapid(t, pick(15000, 100000), 5, func(rt *rapid.T) {
		kind := rapid.SampledFrom(c05Kinds).Draw(rt, "kind")
		isTok := kind == "generic" || kind == "expression" || kind == "csv" || kind == "mustache" || kind == "csv-custom" || kind == "generic-custom"
		opts := -1
		if isTok && rapid.Bool().Draw(rt, "setopts") {
			opts = rapid.IntRange(0, optAll).Draw(rt, "opts")
		}
		n := rapid.IntRange(2, 10).Draw(rt, "n")
		manyVars := !isTok && rapid.IntRange(0, 11).Draw(rt, "manyvars") == 0
		if manyVars {
			n = rapid.IntRange(20, 70).Draw(rt, "longn") // dozens of feeds that keep introducing new variable names
		}
		var steps []c05Step
		for i := 0; i < n; i++ {
			in := rapid.SampledFrom(c05Pool).Draw(rt, "input")
			if manyVars {
				stems := []string{"v", "V", "total", "Total", "x_"}
				in = fmt.Sprintf("%s%d + %s%d * 2", rapid.SampledFrom(stems).Draw(rt, "stem1"), rapid.IntRange(1, 60).Draw(rt, "n1"), rapid.SampledFrom(stems).Draw(rt, "stem2"), rapid.IntRange(1, 60).Draw(rt, "n2"))
				if kind == "mustacheparser" || kind == "template" {
					in = strings.ReplaceAll(strings.ReplaceAll("{{"+in+"}}", " + ", "}}{{"), " * 2", "")
				}
				steps = append(steps, c05Step{in, -1, 0, 0, 0, 0})
				continue
			}
			switch rapid.IntRange(0, 6).Draw(rt, "mut") {
			case 0:
				in += rapid.SampledFrom(c05Pool).Draw(rt, "input2")
			case 1:
				in = genTokInput(rt, c04Alphabet, 12)
			case 2:
				// a variant of the previous input that differs in letter case only (or is identical)
				if len(steps) > 0 {
					var sb strings.Builder
					for _, r := range steps[len(steps)-1].Input {
						if r < 0x80 && rapid.IntRange(0, 3).Draw(rt, "flip") == 0 {
							if strings.ToUpper(string(r)) != string(r) {
								sb.WriteString(strings.ToUpper(string(r)))
							} else {
								sb.WriteString(strings.ToLower(string(r)))
							}
						} else {
							sb.WriteRune(r)
						}
					}
					in = sb.String()
				}
			}
			st := c05Step{in, -1, 0, rapid.IntRange(0, 2).Draw(rt, "fn"), 0, 0}
			if !isTok && rapid.IntRange(0, 5).Draw(rt, "clear") == 0 {
				st.Mode = rapid.SampledFrom([]int{1, 3}).Draw(rt, "clearmode")
			}
			if (kind == "exprparser" || kind == "mustacheparser" || kind == "template") && rapid.IntRange(0, 3).Draw(rt, "viatokens") == 0 {
				st.Mode |= 4
			}
			if kind == "calculator" && rapid.IntRange(0, 3).Draw(rt, "replacevars") == 0 {
				st.Mode |= 16
			}
			if (kind == "csv" || kind == "csv-custom") && rapid.IntRange(0, 5).Draw(rt, "rejectedcfg") == 0 {
				st.Mode = 8
			} else if isTok && rapid.IntRange(0, 3).Draw(rt, "entry") == 0 {
				st.Mode = rapid.IntRange(1, 4).Draw(rt, "entrymode")
			} else if isTok {
				if rapid.IntRange(0, 3).Draw(rt, "abort") == 0 {
					st.Abort = rapid.IntRange(0, 4).Draw(rt, "k")
				}
				if rapid.IntRange(0, 2).Draw(rt, "hn") == 0 {
					st.HasNext = rapid.IntRange(1, 3).Draw(rt, "hasnext")
				}
			}
			if isTok && rapid.IntRange(0, 4).Draw(rt, "reopt") == 0 {
				st.Reopt = 1 + rapid.IntRange(0, 127).Draw(rt, "newopts") + rapid.IntRange(0, 6).Draw(rt, "lastsetter")<<7
			}
			steps = append(steps, st)
		}
		if c05Run(rec, c05Case{kind, opts, steps}) {
			rt.Fatalf("C05 violated")
		}
	})
}
