package props

import (
	"fmt"
	"strings"

	"github.com/pip-services3-gox/pip-services3-expressions-gox/tokenizers"
	"verif/pbt/evid"
)

// Reference semantics of the seven tokenizer options (C15), also used by C12 to map every token of
// an option run back to the base (option-free) token it stems from.

// quoteToken tells whether a base token was read by the tokenizer's quote state: quote states are
// the only producers of Quoted tokens, and the expression quote state types "..." as Word (ordinary
// words cannot start with a quote character).
func baseKind(kind string) string {
	if i := strings.IndexByte(kind, '+'); i >= 0 {
		return kind[:i]
	}
	return kind
}

func quoteToken(kind string, b tk) bool {
	if b.T == tokenizers.Quoted {
		return true
	}
	return baseKind(kind) == "expression" && b.T == tokenizers.Word && strings.HasPrefix(b.V, "\"")
}

// refDecode is the reference decoding of a literal read by a quote state; ok=false when the literal is
// not a well-formed terminated one (unterminated at end of input), whose decoded value no property fixes.
func refDecode(kind string, v string) (string, bool) {
	rs := []rune(v)
	if len(rs) < 2 {
		return v, false
	}
	q := rs[0]
	doubling := baseKind(kind) == "expression" || baseKind(kind) == "csv"
	var body []rune
	i := 1
	for i < len(rs) {
		if rs[i] == q {
			if doubling && i+1 < len(rs) && rs[i+1] == q && i+2 < len(rs) {
				// a doubled quote inside the body (the pair must be followed by something, else the second one closes)
				body = append(body, q)
				i += 2
				continue
			}
			if i == len(rs)-1 {
				return string(body), true
			}
			return v, false
		}
		body = append(body, rs[i])
		i++
	}
	return v, false
}

// contentKept: the decoded value of a malformed (unterminated) literal is not fixed by any property, but
// decoding only ever removes delimiters and escapes - every character other than the quote character survives,
// in order, and none is invented.
func contentKept(raw, decoded string) bool {
	rs := []rune(raw)
	if len(rs) == 0 {
		return decoded == ""
	}
	q := string(rs[0])
	return strings.ReplaceAll(raw, q, "") == strings.ReplaceAll(decoded, q, "")
}

func isNumberType(t int) bool {
	return t == tokenizers.Integer || t == tokenizers.Float || t == tokenizers.HexDecimal
}

// expectRewrite returns the token an option set must turn base token b into (position aside); free=true
// means the value is not constrained (decode of a malformed literal).
func expectRewrite(kind string, b tk, opts int) (want tk, free bool) {
	want = b
	if opts&optDecodeStrings != 0 && quoteToken(kind, b) {
		if d, ok := refDecode(kind, b.V); ok {
			want.V = d
		} else {
			free = true
		}
	}
	if opts&optMergeWhitespaces != 0 && b.T == tokenizers.Whitespace {
		want.V = " "
	}
	if opts&optUnifyNumbers != 0 && isNumberType(b.T) {
		want.T = tokenizers.Number
	}
	return
}

func dropped(b tk, opts int) bool {
	switch b.T {
	case tokenizers.Unknown:
		return opts&optSkipUnknown != 0
	case tokenizers.Comment:
		return opts&optSkipComments != 0
	case tokenizers.Eof:
		return opts&optSkipEof != 0
	}
	return false
}

// alignTokens checks `out` (tokens under option set opts) against `base` (option-free tokens of the same
// input) and returns, for every out token, the base indexes it may stem from (one index, or the members
// of a run of blanks of which any one may survive).
func alignTokens(kind string, base []tk, opts int, out []tk) ([][]int, *evid.Fail) {
	desc := func() string {
		return fmt.Sprintf("%s tokenizer, options %s: base %s ; got %s", kind, optNames(opts), tksString(base), tksString(out))
	}
	// 1. deterministic drops
	var kept []int
	for i, b := range base {
		if !dropped(b, opts) {
			kept = append(kept, i)
		}
	}
	// 2. group runs of adjacent blanks when skip-whitespaces is on
	var groups [][]int
	for _, i := range kept {
		if opts&optSkipWhitespaces != 0 && base[i].T == tokenizers.Whitespace && len(groups) > 0 {
			last := groups[len(groups)-1]
			if base[last[0]].T == tokenizers.Whitespace {
				groups[len(groups)-1] = append(last, i)
				continue
			}
		}
		groups = append(groups, []int{i})
	}
	// 3. global guarantees of each option
	for i, o := range out {
		switch {
		case o.T == tokenizers.Unknown && opts&optSkipUnknown != 0:
			return nil, evid.F("option:unknown-token-survives", "%s", desc())
		case o.T == tokenizers.Comment && opts&optSkipComments != 0:
			return nil, evid.F("option:comment-token-survives", "%s", desc())
		case o.T == tokenizers.Eof && opts&optSkipEof != 0:
			return nil, evid.F("option:eof-token-survives", "%s", desc())
		case o.T == tokenizers.Whitespace && opts&optSkipWhitespaces != 0 && i > 0 && out[i-1].T == tokenizers.Whitespace:
			return nil, evid.F("option:adjacent-whitespace-tokens", "%s", desc())
		case o.T == tokenizers.Whitespace && opts&optMergeWhitespaces != 0 && o.V != " ":
			return nil, evid.F("option:whitespace-not-merged", "%s", desc())
		case isNumberType(o.T) && opts&optUnifyNumbers != 0:
			return nil, evid.F("option:number-not-unified", "%s", desc())
		}
	}
	// 4. one out token per group, equal to the prescribed rewrite of a member
	if len(out) != len(groups) {
		sig := "option:token-count"
		if len(out) < len(groups) {
			sig = "option:token-lost-or-resegmented"
		} else {
			sig = "option:token-extra-or-resegmented"
		}
		return nil, evid.F(sig, "expected %d tokens, got %d; %s", len(groups), len(out), desc())
	}
	mapping := make([][]int, len(out))
	for gi, g := range groups {
		o := out[gi]
		for _, bi := range g {
			want, free := expectRewrite(kind, base[bi], opts)
			if o.T == want.T && ((free && contentKept(base[bi].V, o.V)) || (!free && o.V == want.V)) {
				mapping[gi] = append(mapping[gi], bi)
			}
		}
		if len(mapping[gi]) == 0 {
			want, _ := expectRewrite(kind, base[g[0]], opts)
			sig := "option:token-rewritten-wrongly"
			b := base[g[0]]
			switch {
			case quoteToken(kind, b) && opts&optDecodeStrings != 0:
				sig = "option:decode-wrong"
				if _, ok := refDecode(kind, b.V); !ok {
					sig = "option:decode-loses-content"
				}
			case quoteToken(kind, b):
				sig = "option:decoded-although-off"
			case b.T == tokenizers.Whitespace:
				sig = "option:whitespace-rewrite"
			case isNumberType(b.T):
				sig = "option:number-rewrite"
			}
			return nil, evid.F(sig, "token %d is %s, expected %s(%q); %s", gi, o, tokTypeName(want.T), want.V, desc())
		}
	}
	return mapping, nil
}

// tokenizeWith runs a pooled tokenizer of the kind under the option set.
func tokenizeWith(kind string, opts int, input string) ([]tk, *evid.Fail) {
	t := getTok(kind)
	setOptions(t, opts)
	toks, f := tokenizeCapped(t, input, 0)
	if f == nil {
		putTok(kind, t)
	}
	return toks, f
}

// tokenizeFresh does the same on a freshly constructed tokenizer (replay path).
func tokenizeFresh(kind string, opts int, input string) ([]tk, *evid.Fail) {
	t := newTokenizer(kind)
	setOptions(t, opts)
	return tokenizeCapped(t, input, 0)
}
