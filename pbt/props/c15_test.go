package props

import (
	"fmt"
	rio "github.com/pip-services3-gox/pip-services3-expressions-gox/io"
	"strings"
	"testing"

	"github.com/pip-services3-gox/pip-services3-expressions-gox/tokenizers"
	"pgregory.net/rapid"
	"verif/pbt/evid"
)

// C15 — tokenizer options only drop or rewrite whole tokens, never re-segment.

type c15Case struct {
	Tok   string `json:"tok"`
	Opts  int    `json:"opts"`
	Input string `json:"input"`
}

func checkC15(c c15Case) *evid.Fail { return checkC15Using(c, tokenizeFresh) }

func checkC15Using(c c15Case, tokenize func(string, int, string) ([]tk, *evid.Fail)) *evid.Fail {
	base, f := tokenize(c.Tok, 0, c.Input)
	if f != nil {
		return f
	}
	out, f := tokenize(c.Tok, c.Opts, c.Input)
	if f != nil {
		return f
	}
	if _, f = alignTokens(c.Tok, base, c.Opts, out); f != nil {
		return f
	}
	return c15Strings(c.Tok, c.Opts, c.Input, out)
}

// c15Strings: the string-list entry points are the same token stream, one string per token - a rewritten token
// (an empty decoded literal, a merged blank) included.
func c15Strings(kind string, opts int, input string, out []tk) *evid.Fail {
	var strs, strs2 []string
	if g := guard(func() {
		t := newTokenizer(kind)
		setOptions(t, opts)
		strs = t.TokenizeBufferToStrings(input)
		strs2 = t.TokenizeStreamToStrings(rio.NewStringScanner(input))
	}); g != nil {
		return g
	}
	vals := make([]string, len(out))
	for i, o := range out {
		vals[i] = o.V
	}
	for i, got := range [][]string{strs, strs2} {
		if fmt.Sprintf("%q", got) != fmt.Sprintf("%q", vals) {
			return evid.F("option:string-entry-differs", "%s tokenizer, options %s, input %q: tokens %s, string-list entry point #%d gives %q", kind, optNames(opts), input, tksString(out), i+1, got)
		}
	}
	return nil
}

// affectedKinds returns how many of the enabled options find a token of their kind in the base stream.
func c15Affected(kind string, base []tk, opts int) int {
	has := map[int]bool{}
	quote := false
	for _, b := range base {
		has[b.T] = true
		if quoteToken(kind, b) {
			quote = true
		}
	}
	n := 0
	if opts&optSkipUnknown != 0 && has[tokenizers.Unknown] {
		n++
	}
	if opts&optSkipComments != 0 && has[tokenizers.Comment] {
		n++
	}
	if opts&optSkipEof != 0 && has[tokenizers.Eof] {
		n++
	}
	if opts&(optSkipWhitespaces|optMergeWhitespaces) != 0 && has[tokenizers.Whitespace] {
		n++
		if opts&optSkipWhitespaces != 0 && opts&optMergeWhitespaces != 0 {
			n++
		}
	}
	if opts&optUnifyNumbers != 0 && (has[tokenizers.Integer] || has[tokenizers.Float]) {
		n++
	}
	if opts&optDecodeStrings != 0 && quote {
		n++
	}
	return n
}

func init() { regReplay("C15", checkC15) }

const c15Rule = "tokenizer x option set (7 bits) x input; oracle: the option run must be the option-free run with whole tokens dropped (only kinds whose skip option is on) or rewritten exactly as the option prescribes; non-trivial = at least 2 enabled options each find a token they affect in the option-free stream; distinct by (tokenizer, options, input)"

var c15Alphabet = []string{"a", "1", ".", "-", "/", "*", "'", "\"", "<", "=", "{", "}", "#", ",", " ", "\n", "é", "😀"}

func c15RunInput(rec *evid.Recorder, kind, in string, optSets []int) {
	base, f := tokenizeWith(kind, 0, in)
	if f != nil {
		c := c15Case{kind, 0, in}
		if ff := checkC15(c); ff != nil {
			rec.Fail(ff, c)
		} else {
			rec.Fail(evid.F("reused-instance-only:"+f.Sig, "%s", f.Msg), c)
		}
		return
	}
	for _, o := range optSets {
		c := c15Case{kind, o, in}
		rec.Case(fmt.Sprintf("%s|%d|%s", kind, o, in), c15Affected(kind, base, o) >= 2, func() interface{} { return c }, "tok:"+kind)
		out, f := tokenizeWith(kind, o, in)
		if f == nil {
			_, f = alignTokens(kind, base, o, out)
		}
		if f != nil {
			if ff := checkC15(c); ff != nil {
				rec.Fail(ff, c)
			} else {
				rec.Fail(evid.F("reused-instance-only:"+f.Sig, "%s", f.Msg), c)
			}
		}
	}
}

func allOptSets() []int {
	out := make([]int, 0, 128)
	for o := 0; o <= optAll; o++ {
		out = append(out, o)
	}
	return out
}

func TestC15_Exhaustive(t *testing.T) {
	rec := evid.New("C15", "TestC15_Exhaustive", "C15", c15Rule)
	rec.Exhaustive = true
	rec.DupFree = true
	defer finish(t, rec)
	lenAll := pick(3, 4)
	rec.Bounds = fmt.Sprintf("all strings of length 0..%d over the %d-symbol alphabet %q x all 128 option sets x 4 tokenizers", lenAll, len(c15Alphabet), strings.Join(c15Alphabet, ""))
	opts := allOptSets()
	enumStrings(c15Alphabet, lenAll, true, func(parts []string) {
		in := runesOf(parts)
		for _, k := range tokKindsExt {
			c15RunInput(rec, k, in, opts)
		}
	})
	requireLabels(t, rec, "tok:generic", "tok:expression", "tok:csv", "tok:mustache")
}

// Literals with every pattern of quotes: the decode option concerns exactly these tokens, and short alphabets of
// the general enumeration cannot reach a literal with several escapes.
func TestC15_ExhaustiveQuotes(t *testing.T) {
	rec := evid.New("C15", "TestC15_ExhaustiveQuotes", "C15", c15Rule)
	rec.Exhaustive = true
	rec.DupFree = true
	defer finish(t, rec)
	alphabet := []string{"\"", "'", "a", ","}
	maxLen := pick(6, 8)
	opts := []int{optDecodeStrings, optDecodeStrings | optSkipWhitespaces | optSkipEof, optDecodeStrings | optUnifyNumbers | optMergeWhitespaces | optSkipUnknown, optAll}
	rec.Bounds = fmt.Sprintf("all strings of length 0..%d over %q x %d option sets with decoding on x %d tokenizers", maxLen, strings.Join(alphabet, ""), len(opts), len(tokKindsExt))
	enumStrings(alphabet, maxLen, true, func(parts []string) {
		in := runesOf(parts)
		for _, k := range tokKindsExt {
			c15RunInput(rec, k, in, opts)
			if len(parts) <= 5 {
				for _, o := range opts[:2] {
					if out, f := tokenizeWith(k, o, in); f == nil {
						if ff := c15Strings(k, o, in, out); ff != nil {
							rec.Fail(ff, c15Case{k, o, in})
						}
					}
				}
			}
		}
	})
	requireLabels(t, rec, "tok:generic", "tok:expression", "tok:csv", "tok:mustache")
}

// genLiteral draws a quoted literal from its grammar: quote, pieces (doubled quote, the other quote, text,
// separator), closing quote or none.
func genLiteral(t *rapid.T) string {
	q := rapid.SampledFrom([]string{"'", "\"", "'", "\"", "«", "“"}).Draw(t, "q")
	var sb strings.Builder
	sb.WriteString(q)
	for n := rapid.IntRange(0, 6).Draw(t, "pieces"); n > 0; n-- {
		sb.WriteString(rapid.SampledFrom([]string{q + q, q + q, "'", "\"", "a", "é", " ", ",", "\n", "1"}).Draw(t, "piece"))
	}
	if rapid.IntRange(0, 5).Draw(t, "closed") != 0 {
		sb.WriteString(q)
	}
	return sb.String()
}

// genOptInput draws inputs weighted to "blank, comment, blank", Unknown characters, numbers, quoted strings.
func genOptInput(t *rapid.T, kind string) string {
	frags := []string{" ", "  ", "\t", "\n", "a", "ab", "1", "12", "1.5", ".5", "-3", "'x'", "\"y\"", "'a''b'", "'é'", "\"\"", "''", "'un", "😀", " ", "<", "<=", "<>", "=", ",", "+", "-", ".", "{", "}", "x_1"}
	switch kind {
	case "generic+sym":
		frags = append(frags, "...", "..", ". .", "=:~", "=:", "=", "-->", "--", "::=", "::", "≠≠", "≠", "<=>", "<=", "a..", "x=:", "<!--", "<!-", "<!", "=:~=:~", "=:~=:", "=:~=")
	case "expression+cpp":
		frags = append(frags, "// c\n", "//", "/", "a /", "/* c */", "/*", "1//2", "x // y")
	case "generic+ws":
		frags = append(frags, "\n", " \n ", "\n\n", "。", "你好。世界", "　", "a　b", "\t\n\t")
	case "csv+cfg":
		frags = append(frags, "，", "«a，b»", "'x''y'", "“q”", "名，b", ";", "|", "\r\n", "«")
	}
	switch baseKind(kind) {
	case "generic":
		frags = append(frags, "# c", "#c\n", " # c \n ", "1 # c\n 2")
	case "expression":
		frags = append(frags, "/* c */", " /* c */ ", "/**/", "/* un", "1e5", "2.5E-3", "AND", "not", "/", "*/",
			// keywords spelt with letters whose upper-case form is ASCII (U+017F, U+0131): byte length != character count
			"iſ", "ıs", "lıke", "ıN", "falſe", "ſ", "a iſ null", "x ıs not null")
	case "csv":
		frags = append(frags, "\r\n", "\n\r", "\r", "\"a\"\"b\"", "\"a,b\"", ";", "中文")
	case "mustache":
		frags = append(frags, "{{", "}}", "{{{", "}}}", "{{a}}", "{{ # if b }}", "{{/if}}", "{{ 😀 }}", "{{! c }}", "text ", "{{'q'}}", "'}}'", "\"}}}\"", "{{ '}}' x }}", "'{{'")
	}
	n := rapid.IntRange(0, 14).Draw(t, "n")
	var sb strings.Builder
	if rapid.IntRange(0, 24).Draw(t, "run") == 0 {
		// a long run of tokens that an option skips (dozens to hundreds inside one NextToken call)
		unit := rapid.SampledFrom([]string{"😀", "\uffff", "/* c */", "/**/ ", "# c\n", "#\n ", " 😀", "\x01😀"}).Draw(t, "rununit")
		sb.WriteString(rapid.SampledFrom([]string{"", "a ", "1"}).Draw(t, "runhead"))
		sb.WriteString(strings.Repeat(unit, rapid.IntRange(30, 300).Draw(t, "runlen")))
	}
	for i := 0; i < n; i++ {
		if k := rapid.IntRange(0, 9).Draw(t, "k"); k == 0 {
			sb.WriteRune(genRune(t))
		} else if k == 1 {
			sb.WriteString(genLiteral(t))
		} else {
			sb.WriteString(rapid.SampledFrom(frags).Draw(t, "frag"))
		}
	}
	return sb.String()
}

func TestC15_Rapid(t *testing.T) {
	rec := evid.New("C15", "TestC15_Rapid", "C15", c15Rule+"; rapid: fragment-built inputs (blank-comment-blank, Unknown characters, numbers, quoted strings) x random option set")
	defer finish(t, rec)
	runRapid(t, pick(40000, 300000), 15, func(rt *rapid.T) {
		kind := rapid.SampledFrom(tokKindsExt).Draw(rt, "tok")
		c := c15Case{kind, rapid.IntRange(0, optAll).Draw(rt, "opts"), genOptInput(rt, kind)}
		base, f := tokenizeFresh(kind, 0, c.Input)
		nt := f == nil && c15Affected(kind, base, c.Opts) >= 2
		rec.Case(fmt.Sprintf("%s|%d|%s", kind, c.Opts, c.Input), nt, func() interface{} { return c }, "tok:"+kind, fmt.Sprintf("nopts:%d", popcount(c.Opts)))
		if f := checkC15(c); f != nil {
			if rec.Fail(f, c) {
				rt.Fatalf("%v", f)
			}
		}
	})
}

func popcount(x int) int {
	n := 0
	for ; x != 0; x &= x - 1 {
		n++
	}
	return n
}
