package props

import (
	"fmt"
	"math"
	"testing"

	"github.com/pip-services3-gox/pip-services3-expressions-gox/variants"
	"pgregory.net/rapid"
	"verif/pbt/evid"
)

// C06 — variant operators implement the arithmetic of the first operand's type.

type c06Case struct {
	Op   string `json:"op"`
	A    val    `json:"a"`
	B    val    `json:"b"`
	Safe bool   `json:"safe"`
	// Host > 0: the operands are built from host values through NewVariant / VariantFromObject (int32, uint, uint32 ...)
	Host int `json:"host,omitempty"`
}

func applyOp(ops variants.IVariantOperations, op string, a, b *variants.Variant) (*variants.Variant, error) {
	switch op {
	case "Add":
		return ops.Add(a, b)
	case "Sub":
		return ops.Sub(a, b)
	case "Mul":
		return ops.Mul(a, b)
	case "Div":
		return ops.Div(a, b)
	case "Mod":
		return ops.Mod(a, b)
	case "Pow":
		return ops.Pow(a, b)
	case "And":
		return ops.And(a, b)
	case "Or":
		return ops.Or(a, b)
	case "Xor":
		return ops.Xor(a, b)
	case "Lsh":
		return ops.Lsh(a, b)
	case "Rsh":
		return ops.Rsh(a, b)
	case "Not":
		return ops.Not(a)
	case "Negative":
		return ops.Negative(a)
	case "Equal":
		return ops.Equal(a, b)
	case "NotEqual":
		return ops.NotEqual(a, b)
	case "More":
		return ops.More(a, b)
	case "Less":
		return ops.Less(a, b)
	case "MoreEqual":
		return ops.MoreEqual(a, b)
	case "LessEqual":
		return ops.LessEqual(a, b)
	case "In":
		return ops.In(a, b)
	case "GetElement":
		return ops.GetElement(a, b)
	}
	panic("unknown operator " + op)
}

// runOp applies the operator under guard and classifies the outcome.
func runOp(ops variants.IVariantOperations, op string, a, b *variants.Variant) (v *variants.Variant, err error, bad *evid.Fail) {
	if g := guard(func() { v, err = applyOp(ops, op, a, b) }); g != nil {
		return nil, nil, g
	}
	if v == nil && err == nil {
		return nil, nil, evid.F("neither-result-nor-error:"+op, "%s returned (nil, nil)", op)
	}
	if v != nil && err != nil {
		return nil, nil, evid.F("both-result-and-error:"+op, "%s returned a value and an error %v", op, err)
	}
	return v, err, nil
}

func numericValue(v val) (float64, bool) {
	switch v.K {
	case "int", "long":
		return float64(v.I), true
	case "float", "double":
		return v.f64(), true
	}
	return 0, false
}

func checkC06(c c06Case) *evid.Fail {
	ops := opsManager(c.Safe)
	a, b := c.A.toVariant(), c.B.toVariant()
	if c.Host > 0 {
		a, b = c.A.toHostVariant(c.Host), c.B.toHostVariant(c.Host+1)
	}
	cell := fmt.Sprintf("%s(%s,%s)", c.Op, c.A.K, c.B.K)
	desc := func() string {
		m := "type-unsafe"
		if c.Safe {
			m = "type-safe"
		}
		return fmt.Sprintf("%s %s(%s, %s)", m, c.Op, c.A, c.B)
	}
	v, err, bad := runOp(ops, c.Op, a, b)
	if bad != nil {
		bad.Msg = desc() + ": " + bad.Msg
		return bad
	}
	// operands are never modified
	if !equalVal(fromVariant(a), c.A) || !equalVal(fromVariant(b), c.B) {
		return evid.F("operand-mutated:"+c.Op, "%s changed its operands to (%s, %s)", desc(), fromVariant(a), fromVariant(b))
	}
	want := refOperator(c.Op, c.A, c.B, c.Safe)
	switch want.St {
	case refMustError:
		if err == nil {
			return evid.F("value-for-undefined-operation:"+cell, "%s = %s, but the operation is undefined (%s) and must yield an error", desc(), fromVariant(v), want.Why)
		}
	case refExact:
		if err != nil {
			return evid.F("error-for-defined-operation:"+cell, "%s failed with %v, expected %s", desc(), err, want.V)
		}
		got := fromVariant(v)
		if want.Why == "pow" {
			g, ok := numericValue(got)
			if !ok {
				return evid.F("pow-not-numeric:"+cell, "%s = %s, expected a numeric value near %s", desc(), got, want.V)
			}
			cands := append([]val{want.V}, want.Alt...)
			for _, cand := range cands {
				w := cand.f64()
				if (math.IsNaN(w) && math.IsNaN(g)) || w == g || (got.K == "float" && float32(w) == float32(g)) ||
					((got.K == "int" || got.K == "long") && !math.IsNaN(w) && math.Abs(w) < 9e15 && float64(int64(w)) == g) {
					return nil
				}
			}
			return evid.F("pow-wrong-value:"+cell, "%s = %s, true exponentiation gives %v", desc(), got, want.V.f64())
		}
		ok := equalVal(got, want.V)
		for _, alt := range want.Alt {
			ok = ok || equalVal(got, alt)
		}
		if !ok {
			sig := "wrong-value:" + cell
			if got.K != want.V.K {
				sig = "wrong-result-type:" + cell
			}
			return evid.F(sig, "%s = %s, expected %s", desc(), got, want.V)
		}
	}
	if f := aliasProbe(v, []*variants.Variant{a, b}, func() (*variants.Variant, error, *evid.Fail) { return runOp(ops, c.Op, a, b) }); f != nil {
		f.Sig += ":" + c.Op
		f.Msg = desc() + ": " + f.Msg
		return f
	}
	// mutual consistency of the comparisons on the implementation's own outputs
	asBool := func(op string, x, y *variants.Variant) (bool, bool) {
		r, e, bad := runOp(ops, op, x, y)
		if bad != nil || e != nil || r == nil || r.Type() != variants.Boolean {
			return false, false
		}
		return r.AsBoolean(), true
	}
	if c.A.K == c.B.K && (c.Op == "Less" || c.Op == "LessEqual" || c.Op == "NotEqual") && err == nil && v.Type() == variants.Boolean {
		switch c.Op {
		case "Less":
			if m, ok := asBool("More", b, a); ok && m != v.AsBoolean() {
				return evid.F("law:less-vs-more:"+c.A.K, "%s = %v but More(b, a) = %v", desc(), v.AsBoolean(), m)
			}
		case "LessEqual":
			l, ok1 := asBool("Less", a, b)
			e, ok2 := asBool("Equal", a, b)
			if ok1 && ok2 && (l || e) != v.AsBoolean() {
				return evid.F("law:lessequal:"+c.A.K, "%s = %v but Less = %v and Equal = %v", desc(), v.AsBoolean(), l, e)
			}
		case "NotEqual":
			if e, ok := asBool("Equal", a, b); ok && e == v.AsBoolean() {
				return evid.F("law:notequal:"+c.A.K, "%s = %v and Equal = %v", desc(), v.AsBoolean(), e)
			}
		}
	}
	return nil
}

func init() { regReplay("C06", checkC06) }

const c06Rule = "operator x ordered pair of values x operations manager; oracle: reference semantics written from the statement (Null propagation, second operand converted to the first operand's type, host arithmetic of that type, must-error for undefined operations), comparison laws on the implementation's own outputs, operands unchanged; non-trivial = both operands non-null and the reference fixes the outcome (an exact value or a mandatory error); distinct by (operator, values, manager)"

func c06Run(rec *evid.Recorder, c c06Case) bool {
	want := refOperator(c.Op, c.A, c.B, c.Safe)
	nt := c.A.K != "null" && (isUnary(c.Op) || c.B.K != "null") && want.St != refFree
	rec.Case(jsonStr(c), nt, func() interface{} { return fmt.Sprintf("%s(%s, %s) safe=%v -> %s", c.Op, c.A, c.B, c.Safe, want.St) },
		"cell:"+c.Op+":"+c.A.K+":"+c.B.K, "ref:"+want.St.String())
	if f := checkC06(c); f != nil {
		return rec.Fail(f, c)
	}
	return false
}

func TestC06_Exhaustive(t *testing.T) {
	rec := evid.New("C06", "TestC06_Exhaustive", "C06", c06Rule)
	rec.Exhaustive = true
	rec.DupFree = true
	defer finish(t, rec)
	pool := valuePool()
	rec.Bounds = fmt.Sprintf("the full cross product of the %d-value boundary pool with itself x 21 operators x 2 managers (unary operators once per value)", len(pool))
	parallelFor(len(pool), func(i int) {
		a := pool[i]
		for _, safe := range []bool{false, true} {
			for _, op := range refOperators {
				if isUnary(op) {
					c06Run(rec, c06Case{Op: op, A: a, B: vNull(), Safe: safe})
					continue
				}
				for _, b := range pool {
					c06Run(rec, c06Case{Op: op, A: a, B: b, Safe: safe})
				}
			}
		}
	})
	// every (operator, type, type) cell must have been visited
	kinds := []string{"null", "int", "long", "float", "double", "string", "bool", "timespan", "datetime", "array"}
	var need []string
	for _, op := range refOperators {
		for _, k1 := range kinds {
			if isUnary(op) {
				need = append(need, "cell:"+op+":"+k1+":null")
				continue
			}
			for _, k2 := range kinds {
				need = append(need, "cell:"+op+":"+k1+":"+k2)
			}
		}
	}
	requireLabels(t, rec, need...)
}

// genValue draws a pool value or a fresh random value of a random type (mix 60/40).
func genValue(t *rapid.T, depth int) val {
	if rapid.IntRange(0, 9).Draw(t, "frompool") < 6 {
		v := rapid.SampledFrom(valuePool()).Draw(t, "pool")
		if rapid.IntRange(0, 7).Draw(t, "neighbour") == 0 {
			// the adjacent representable value / the same instant written differently
			switch v.K {
			case "double":
				return vDouble(math.Nextafter(v.f64(), v.f64()*2+1))
			case "float":
				return vFloat(math.Nextafter32(v.f32(), v.f32()*2+1))
			case "int":
				return vInt(int(v.I + 1))
			case "long":
				return vLong(v.I - 1)
			case "datetime":
				if v.Z != "zero" {
					return vTime(v.toTime().In(east3))
				}
			}
		}
		return v
	}
	switch rapid.IntRange(0, 10).Draw(t, "kind") {
	case 10:
		// integers just beside a rounding tie of float32 / float64 (double-rounding witnesses)
		e := uint(rapid.IntRange(26, 62).Draw(t, "tieexp"))
		bits := uint(24)
		if e > 54 && rapid.Bool().Draw(t, "tie64") {
			bits = 53
		}
		mant := rapid.Int64Range(0, (1<<(bits-1))-1).Draw(t, "tiemant")
		v := int64(1)<<e | mant<<(e-bits+1) | int64(1)<<(e-bits)
		v += int64(rapid.IntRange(-1, 1).Draw(t, "tieoff"))
		if rapid.Bool().Draw(t, "tieneg") {
			v = -v
		}
		if rapid.Bool().Draw(t, "tielong") {
			return vLong(v)
		}
		return vInt(int(v))
	case 0:
		return vInt(rapid.Int().Draw(t, "int"))
	case 1:
		return vInt(rapid.IntRange(-100, 100).Draw(t, "smallint"))
	case 2:
		return vLong(rapid.Int64().Draw(t, "long"))
	case 3:
		return vFloat(rapid.Float32().Draw(t, "float"))
	case 4:
		return vDouble(rapid.Float64().Draw(t, "double"))
	case 5:
		return vString(rapid.OneOf(rapid.StringN(0, 6, -1), rapid.StringMatching(`-?[0-9]{1,4}(\.[0-9]{1,3})?`), rapid.SampledFrom([]string{"true", "false", "TRUE", "1e2", "NaN", "Inf", " 1", "0x10", "Ａ", "😀", "\uffff", "\ue000", "𝑥", "aＡ", "a😀"})).Draw(t, "string"))
	case 6:
		return vBool(rapid.Bool().Draw(t, "bool"))
	case 7:
		return vSpan(time64(rapid.Int64Range(-1<<50, 1<<50).Draw(t, "span")))
	case 8:
		return vTime(unixUTC(rapid.Int64Range(-1e10, 1e10).Draw(t, "unix"), rapid.Int64Range(0, 999999999).Draw(t, "nsec")))
	default:
		if depth <= 0 {
			return vArray()
		}
		n := rapid.IntRange(0, 5).Draw(t, "alen")
		var els []val
		for i := 0; i < n; i++ {
			els = append(els, genValue(t, depth-1))
		}
		return vArray(els...)
	}
}

func TestC06_Rapid(t *testing.T) {
	rec := evid.New("C06", "TestC06_Rapid", "C06", c06Rule+"; rapid: pairs drawn from the pool (60%) or fresh random values of every type")
	defer finish(t, rec)
	runRapid(t, pick(60000, 400000), 6, func(rt *rapid.T) {
		c := c06Case{Op: rapid.SampledFrom(refOperators).Draw(rt, "op"), A: genValue(rt, 2), B: genValue(rt, 2), Safe: rapid.IntRange(0, 3).Draw(rt, "safe") == 0,
			Host: rapid.SampledFrom([]int{0, 0, 0, 1, 2, 3, 4}).Draw(rt, "host")}
		if isUnary(c.Op) {
			c.B = vNull()
		}
		if c06Run(rec, c) {
			rt.Fatalf("C06 violated")
		}
	})
}

// ---------------------------------------------------------------------------------------
// One manager object over a history of operations whose operands are objects the caller keeps and changes in place
// between the calls (a running total, a loop variable), or the very element objects of an array operand. Every step
// is decided by the same reference as the single operations, and every result handed out earlier keeps its value.

type c06HStep struct {
	Op   string `json:"op"`
	SetX *val   `json:"setX,omitempty"` // before the step the caller assigns this value into its object X (in place)
	SetY *val   `json:"setY,omitempty"`
	A    int    `json:"a"` // operand sources: 0 = the object X, 1 = the object Y, 2 = a fresh variant (FA / FB), 3 = element Idx of X (X an array)
	B    int    `json:"b"`
	FA   val    `json:"fa"`
	FB   val    `json:"fb"`
	Idx  int    `json:"idx"`
}

type c06HistCase struct {
	Safe  bool       `json:"safe"`
	X     val        `json:"x"`
	Y     val        `json:"y"`
	Steps []c06HStep `json:"steps"`
}

func variantWithin(v, a *variants.Variant) bool {
	if a == v {
		return true
	}
	if a != nil && a.Type() == variants.Array {
		for _, e := range a.AsArray() {
			if variantWithin(v, e) {
				return true
			}
		}
	}
	return false
}

func checkC06Hist(c c06HistCase) *evid.Fail {
	ops := opsManager(c.Safe)
	mgr := "type-unsafe"
	if c.Safe {
		mgr = "type-safe"
	}
	x, y := c.X.toVariant(), c.Y.toVariant()
	xv, yv := c.X, c.Y
	type kept struct {
		v    *variants.Variant
		was  val
		step int
	}
	var held []kept
	for i, s := range c.Steps {
		if s.SetX != nil {
			x.Assign(s.SetX.toVariant())
			xv = *s.SetX
		}
		if s.SetY != nil {
			y.Assign(s.SetY.toVariant())
			yv = *s.SetY
		}
		pick := func(src int, fresh val) (*variants.Variant, val) {
			switch src {
			case 0:
				return x, xv
			case 1:
				return y, yv
			case 3:
				if xv.K == "array" && len(xv.A) > 0 {
					k := s.Idx % len(xv.A)
					return x.AsArray()[k], xv.A[k]
				}
			}
			return fresh.toVariant(), fresh
		}
		a, av := pick(s.A, s.FA)
		b, bv := pick(s.B, s.FB)
		if isUnary(s.Op) {
			b, bv = variants.EmptyVariant(), vNull()
		}
		desc := fmt.Sprintf("step %d of %d on one %s manager (operands kept and reassigned in place by the caller): %s(%s, %s)", i, len(c.Steps), mgr, s.Op, av, bv)
		cell := fmt.Sprintf("%s(%s,%s)", s.Op, av.K, bv.K)
		v, err, bad := runOp(ops, s.Op, a, b)
		if bad != nil {
			bad.Msg = desc + ": " + bad.Msg
			return bad
		}
		if !equalVal(fromVariant(a), av) || !equalVal(fromVariant(b), bv) {
			return evid.F("operand-mutated:"+s.Op, "%s changed its operands to (%s, %s)", desc, fromVariant(a), fromVariant(b))
		}
		want := refOperator(s.Op, av, bv, c.Safe)
		switch want.St {
		case refMustError:
			if err == nil {
				return evid.F("history:value-for-undefined-operation:"+cell, "%s = %s, but the operation is undefined (%s)", desc, fromVariant(v), want.Why)
			}
		case refExact:
			if err != nil {
				return evid.F("history:error-for-defined-operation:"+cell, "%s failed with %v, expected %s", desc, err, want.V)
			}
			if want.Why != "pow" {
				got := fromVariant(v)
				ok := equalVal(got, want.V)
				for _, alt := range want.Alt {
					ok = ok || equalVal(got, alt)
				}
				if !ok {
					return evid.F("history:wrong-value:"+cell, "%s = %s, expected %s", desc, got, want.V)
				}
			}
		}
		for _, k := range held {
			if now := fromVariant(k.v); !equalVal(now, k.was) {
				return evid.F("earlier-result-changed:"+s.Op, "%s: the result of step %d was %s and now is %s", desc, k.step, k.was, now)
			}
		}
		// results that are an operand or an element of one (indexing hands out the element itself) follow their owner
		if err == nil && v != nil && !variantWithin(v, x) && !variantWithin(v, y) && !variantWithin(v, a) && !variantWithin(v, b) {
			held = append(held, kept{v, fromVariant(v), i})
		}
	}
	return nil
}

func init() { regReplay("C06.hist", checkC06Hist) }

func TestC06_RapidHistories(t *testing.T) {
	rec := evid.New("C06", "TestC06_RapidHistories", "C06.hist", "histories of 2..10 operations on ONE manager object whose operands are two objects the caller keeps and reassigns in place between the calls, element objects of an array operand, or fresh values; each step against the operator reference, results handed out earlier keep their value; non-trivial = an operand object that was reassigned in place (same type, other value) is used again, or an operand is the element object of the other; distinct by case")
	defer finish(t, rec)
	sameKind := func(rt *rapid.T, v val) val {
		// another value of the same type: what a loop variable or a running total goes through
		switch v.K {
		case "int":
			return vInt(int(v.I) + rapid.IntRange(1, 9).Draw(rt, "d"))
		case "long":
			return vLong(v.I + int64(rapid.IntRange(1, 9).Draw(rt, "d")))
		case "float":
			return vFloat(v.f32() + float32(rapid.IntRange(1, 9).Draw(rt, "d")))
		case "double":
			return vDouble(v.f64() + float64(rapid.IntRange(1, 9).Draw(rt, "d"))/2)
		case "string":
			return vString(v.S + rapid.SampledFrom([]string{"1", "x", "é"}).Draw(rt, "d"))
		case "bool":
			return vBool(v.I == 0)
		case "timespan":
			return vSpan(time64(v.I + 1000000*int64(rapid.IntRange(1, 9).Draw(rt, "d"))))
		}
		return genValue(rt, 1)
	}
	runRapid(t, pick(20000, 150000), 666, func(rt *rapid.T) {
		c := c06HistCase{Safe: rapid.IntRange(0, 3).Draw(rt, "safe") == 0, X: genValue(rt, 1), Y: genValue(rt, 1)}
		if rapid.IntRange(0, 3).Draw(rt, "nanarray") == 0 {
			c.X = vArray(vDouble(math.NaN()), vInt(1), vFloat(float32(math.NaN())), vString("a"))
		}
		xv, yv := c.X, c.Y
		n := rapid.IntRange(2, 10).Draw(rt, "n")
		nt := false
		for i := 0; i < n; i++ {
			s := c06HStep{Op: rapid.SampledFrom(refOperators).Draw(rt, "op"), A: rapid.SampledFrom([]int{0, 0, 1, 1, 2, 3}).Draw(rt, "a"), B: rapid.SampledFrom([]int{0, 1, 1, 2, 3}).Draw(rt, "b"),
				Idx: rapid.IntRange(0, 5).Draw(rt, "idx")}
			s.FA, s.FB = genValue(rt, 1), genValue(rt, 1)
			switch rapid.IntRange(0, 5).Draw(rt, "set") {
			case 0, 1:
				v := sameKind(rt, yv)
				s.SetY, yv, nt = &v, v, nt || s.A == 1 || s.B == 1
			case 2:
				v := sameKind(rt, xv)
				s.SetX, xv, nt = &v, v, nt || s.A == 0 || s.B == 0
			case 3:
				v := genValue(rt, 1)
				s.SetY, yv = &v, v
			}
			if s.A == 3 || s.B == 3 {
				if xv.K == "array" && len(xv.A) > 0 {
					nt = true
					if rapid.Bool().Draw(rt, "membership") {
						s.Op, s.A, s.B = "In", 0, 3
					}
				}
			}
			c.Steps = append(c.Steps, s)
		}
		rec.Case(jsonStr(c), nt, func() interface{} { return c }, fmt.Sprintf("safe:%v", c.Safe))
		if f := checkC06Hist(c); f != nil {
			if rec.Fail(f, c) {
				rt.Fatalf("%v", f)
			}
		}
	})
}
