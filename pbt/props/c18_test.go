package props

import (
	"fmt"
	"strings"
	"testing"

	"github.com/pip-services3-gox/pip-services3-expressions-gox/calculator"
	"github.com/pip-services3-gox/pip-services3-expressions-gox/calculator/functions"
	cparsers "github.com/pip-services3-gox/pip-services3-expressions-gox/calculator/parsers"
	"github.com/pip-services3-gox/pip-services3-expressions-gox/calculator/variables"
	"github.com/pip-services3-gox/pip-services3-expressions-gox/mustache"
	mparsers "github.com/pip-services3-gox/pip-services3-expressions-gox/mustache/parsers"
	"github.com/pip-services3-gox/pip-services3-expressions-gox/variants"
	"pgregory.net/rapid"
	"verif/pbt/evid"
)

// C18 — variables are discovered exactly and names resolve case-insensitively.

// checkNameList: reported has no exact duplicates, only expected spellings, and the same sequence of
// case-insensitive classes as the expected occurrences (names differing in letter case may be merged).
func checkNameList(what string, reported, occurrences []string, fold func(string) string) *evid.Fail {
	spellings := map[string]bool{}
	var wantClasses []string
	seenClass := map[string]bool{}
	for _, o := range occurrences {
		spellings[o] = true
		if c := fold(o); !seenClass[c] {
			seenClass[c] = true
			wantClasses = append(wantClasses, c)
		}
	}
	seen := map[string]bool{}
	var gotClasses []string
	gotClass := map[string]bool{}
	for _, r := range reported {
		if seen[r] {
			return evid.F("names:duplicate", "%s: %q reported twice in %q", what, r, reported)
		}
		seen[r] = true
		if !spellings[r] {
			return evid.F("names:not-a-variable", "%s: reported name %q does not occur in variable position (occurrences %q, reported %q)", what, r, occurrences, reported)
		}
		if c := fold(r); !gotClass[c] {
			gotClass[c] = true
			gotClasses = append(gotClasses, c)
		}
	}
	if strings.Join(gotClasses, "\x00") != strings.Join(wantClasses, "\x00") {
		sig := "names:order"
		if len(gotClasses) < len(wantClasses) {
			sig = "names:missing"
		}
		return evid.F(sig, "%s: reported %q, variables in order of first occurrence are %q", what, reported, occurrences)
	}
	return nil
}

// ---- (a) expressions -------------------------------------------------------------------------------

type c18ExprCase struct {
	Toks []etok    `json:"toks"`
	Text string    `json:"text"`
	Pre  []binding `json:"pre"` // entries already in the default collection
}

func exprVariableOccurrences(toks []etok) (vars []string, funcs []string) {
	for i, t := range toks {
		if t.K != "i" {
			continue
		}
		if i+1 < len(toks) && toks[i+1].K == "o" && toks[i+1].S == "(" {
			funcs = append(funcs, identName(t.S))
		} else {
			vars = append(vars, identName(t.S))
		}
	}
	return
}

func checkC18Expr(c c18ExprCase) *evid.Fail {
	occ, funcs := exprVariableOccurrences(c.Toks)
	p := cparsers.NewExpressionParser()
	var err error
	if g := guard(func() { err = p.ParseString(c.Text) }); g != nil {
		g.Msg = fmt.Sprintf("ParseString(%q): %s", c.Text, g.Msg)
		return g
	}
	if err != nil {
		return evid.F("well-formed-rejected", "%q rejected: %v", c.Text, err)
	}
	if f := checkNameList(fmt.Sprintf("expression %q", c.Text), p.VariableNames(), occ, strings.ToUpper); f != nil {
		return f
	}
	// the same parser object asked again (after another expression) reports the same names
	if g := guard(func() {
		p.ParseString("zz_other + " + strings.Join(append([]string{"1"}, quoteIdents(occ)...), " + "))
		err = p.ParseString(c.Text)
	}); g != nil {
		return g
	}
	if err != nil {
		return evid.F("well-formed-rejected", "%q rejected on a reused parser: %v", c.Text, err)
	}
	if f := checkNameList(fmt.Sprintf("expression %q on a reused parser", c.Text), p.VariableNames(), occ, strings.ToUpper); f != nil {
		f.Sig = "reused-parser:" + f.Sig
		return f
	}
	// the same parser object after expressions it had to reject (the variables of this one already seen when the
	// error is met: a bracket left open, a dangling operator, a stray closing bracket), then the expression itself
	if len(occ) > 0 {
		q := strings.Join(quoteIdents(occ), " * ")
		for k, bad := range []string{q + " * (" + q + " + 1", q + " +", "(" + c.Text, c.Text + " )", c.Text + " " + quoteIdents(occ)[0]} {
			var badErr error
			if g := guard(func() {
				badErr = p.ParseString(bad)
				err = p.ParseString(c.Text)
			}); g != nil {
				g.Msg = fmt.Sprintf("%q after the rejected %q on one parser: %s", c.Text, bad, g.Msg)
				return g
			}
			if badErr == nil {
				continue // (C02 decides what is malformed; here only what follows a rejection matters)
			}
			if err != nil {
				return evid.F("well-formed-rejected", "%q rejected on a parser that had rejected %q before: %v", c.Text, bad, err)
			}
			if f := checkNameList(fmt.Sprintf("expression %q on a parser that had rejected %q before", c.Text, bad), p.VariableNames(), occ, strings.ToUpper); f != nil {
				f.Sig = fmt.Sprintf("after-rejected-input:%s", f.Sig)
				_ = k
				return f
			}
		}
		// the calculator likewise: a rejected expression, then this one - the automatic variables are all there
		calcR := calculator.NewExpressionCalculator()
		var badErr error
		if g := guard(func() {
			badErr = calcR.SetExpression(q + " * (" + q + " + 1")
			err = calcR.SetExpression(c.Text)
		}); g != nil {
			return g
		}
		if badErr != nil && err == nil {
			for _, o := range occ {
				if calcR.DefaultVariables().FindByName(o) == nil {
					return evid.F("after-rejected-input:autovars-missing", "%q set on a calculator that had rejected another expression with the same variables: no default variable for %q", c.Text, o)
				}
			}
		}
	}
	// the token-list entry (tokens taken from a parser that compiled the text) reports the same names
	p2 := cparsers.NewExpressionParser()
	if g := guard(func() { err = p2.ParseTokens(p.OriginalTokens()) }); g != nil {
		return g
	}
	if err != nil {
		return evid.F("token-entry:rejected", "%q: ParseTokens(OriginalTokens()) rejected: %v", c.Text, err)
	}
	if f := checkNameList(fmt.Sprintf("expression %q through ParseTokens", c.Text), p2.VariableNames(), occ, strings.ToUpper); f != nil {
		f.Sig = "token-entry:" + f.Sig
		return f
	}
	calc0 := calculator.ExpressionCalculatorFromTokens(p.OriginalTokens())
	for _, o := range occ {
		if calc0.DefaultVariables().FindByName(o) == nil {
			return evid.F("token-entry:autovars-missing", "%q through ExpressionCalculatorFromTokens: no default variable for %q", c.Text, o)
		}
	}
	if n := calc0.DefaultVariables().Length(); n > len(occ) {
		return evid.F("token-entry:autovars-spurious", "%q through ExpressionCalculatorFromTokens: %d default variables for %d occurrences %q", c.Text, n, len(occ), occ)
	}
	// automatic variables: one entry per name compared case-insensitively, previous entries and values kept
	calc := calculator.NewExpressionCalculator()
	for _, b := range c.Pre {
		calc.DefaultVariables().Add(variables.NewVariable(b.Name, b.V.toVariant()))
	}
	if g := guard(func() { err = calc.SetExpression(c.Text) }); g != nil {
		g.Msg = fmt.Sprintf("SetExpression(%q): %s", c.Text, g.Msg)
		return g
	}
	if err != nil {
		return evid.F("well-formed-rejected", "%q rejected by the calculator: %v", c.Text, err)
	}
	checkCreated := func(all []variables.IVariable, how string) *evid.Fail {
		if len(all) < len(c.Pre) {
			return evid.F("autovars:previous-entry-lost", "%q%s: the default collection shrank from %d to %d entries", c.Text, how, len(c.Pre), len(all))
		}
		for i, b := range c.Pre {
			if all[i].Name() != b.Name || !equalVal(fromVariant(all[i].Value()), b.V) {
				return evid.F("autovars:previous-entry-changed", "%q%s: entry %d was %s=%s, now %s=%s", c.Text, how, i, b.Name, b.V, all[i].Name(), fromVariant(all[i].Value()))
			}
		}
		count := map[string]int{}
		for _, v := range all {
			count[strings.ToUpper(v.Name())]++
		}
		want := map[string]bool{}
		for _, o := range occ {
			want[strings.ToUpper(o)] = true
			if count[strings.ToUpper(o)] != 1 {
				return evid.F("autovars:entries-per-name", "%q%s: the default collection has %d entries for variable %q", c.Text, how, count[strings.ToUpper(o)], o)
			}
		}
		for _, b := range c.Pre {
			want[strings.ToUpper(b.Name)] = true
		}
		for _, v := range all {
			if !want[strings.ToUpper(v.Name())] {
				return evid.F("autovars:spurious-entry", "%q%s: the default collection got an entry %q that is no variable of the expression (functions: %q)", c.Text, how, v.Name(), funcs)
			}
		}
		return nil
	}
	if f := checkCreated(calc.DefaultVariables().GetAll(), ""); f != nil {
		return f
	}
	// automatic variables off: a missing variable / function is an error that names it
	calc2 := calculator.NewExpressionCalculator()
	calc2.SetAutoVariables(false)
	if err = calc2.SetExpression(c.Text); err != nil {
		return evid.F("well-formed-rejected", "%q rejected with automatic variables off: %v", c.Text, err)
	}
	if calc2.DefaultVariables().Length() != 0 {
		return evid.F("autovars:created-although-off", "%q: %d default variables created with automatic variables off", c.Text, calc2.DefaultVariables().Length())
	}
	// CreateVariables called by hand on a collection of the caller's (the defaults of this calculator stay empty)
	own := variables.NewVariableCollection()
	for _, b := range c.Pre {
		own.Add(variables.NewVariable(b.Name, b.V.toVariant()))
	}
	if g := guard(func() { calc2.CreateVariables(own); calc2.CreateVariables(own) }); g != nil {
		return g
	}
	if f := checkCreated(own.GetAll(), " after CreateVariables(own collection) twice"); f != nil {
		f.Sig += ":own-collection"
		return f
	}
	if calc2.DefaultVariables().Length() != 0 {
		return evid.F("autovars:created-although-off", "%q: CreateVariables(own collection) put %d entries into the default collection", c.Text, calc2.DefaultVariables().Length())
	}
	if len(occ) > 0 {
		// bind every variable but one; functions all known (harness function collection)
		missing := occ[len(occ)/2]
		vc := variables.NewVariableCollection()
		for _, o := range occ {
			if !strings.EqualFold(o, missing) {
				vc.Add(variables.NewVariable(o, variants.VariantFromInteger(1)))
			}
		}
		fc := functions.NewFunctionCollection()
		for _, f := range funcs {
			fc.Add(tupFunction(f))
		}
		var v *variants.Variant
		if g := guard(func() { v, err = calc2.EvaluateUsingVariablesAndFunctions(vc, fc) }); g != nil {
			return g
		}
		if err == nil {
			return evid.F("missing-variable:no-error", "%q evaluated to %s although variable %q is missing", c.Text, fromVariant(v), missing)
		}
		// an earlier runtime error (an undefined operation left of the variable) may legitimately come first;
		// a not-found error, however, can only be about the one name that is missing
		if strings.Contains(err.Error(), "not found") && !strings.Contains(strings.ToUpper(err.Error()), strings.ToUpper(missing)) {
			return evid.F("missing-variable:error-does-not-name-it", "%q: the error for the missing variable %q is %q", c.Text, missing, err.Error())
		}
	}
	if len(occ) > 0 {
		// the same collection object between evaluations of the parsed instance, its length kept: the missing
		// variable is added and another one taken out (that one is missing now and must be reported), then everything
		// is there (nothing may be reported missing) - names are resolved against the list as it is at the time
		missing := occ[len(occ)/2]
		other := ""
		vc := variables.NewVariableCollection()
		for _, o := range occ {
			if !strings.EqualFold(o, missing) {
				if vc.FindByName(o) == nil {
					vc.Add(variables.NewVariable(o, variants.VariantFromInteger(1)))
				}
				if other == "" {
					other = o
				}
			}
		}
		fc := functions.NewFunctionCollection()
		for _, f := range funcs {
			fc.Add(tupFunction(f))
		}
		var e1, e2, e3 error
		var v2 *variants.Variant
		if g := guard(func() {
			_, e1 = calc2.EvaluateUsingVariablesAndFunctions(vc, fc)
			if other != "" {
				vc.RemoveByName(other)
				vc.Add(variables.NewVariable(missing, variants.VariantFromInteger(1)))
				v2, e2 = calc2.EvaluateUsingVariablesAndFunctions(vc, fc)
				vc.Add(variables.NewVariable(other, variants.VariantFromInteger(1)))
			} else {
				vc.Add(variables.NewVariable(missing, variants.VariantFromInteger(1)))
			}
			_, e3 = calc2.EvaluateUsingVariablesAndFunctions(vc, fc)
		}); g != nil {
			g.Msg = fmt.Sprintf("%q with variables added to / removed from the same collection between evaluations: %s", c.Text, g.Msg)
			return g
		}
		_ = e1
		if other != "" {
			if e2 == nil {
				return evid.F("missing-variable:no-error:collection-edited", "%q evaluated to %s after %q was removed from the collection (and %q added) between two evaluations", c.Text, fromVariant(v2), other, missing)
			}
			if strings.Contains(e2.Error(), "not found") && !strings.Contains(strings.ToUpper(e2.Error()), strings.ToUpper(other)) {
				return evid.F("missing-variable:error-does-not-name-it:collection-edited", "%q: after %q was removed and %q added, the error is %q", c.Text, other, missing, e2.Error())
			}
		}
		if e3 != nil && strings.Contains(e3.Error(), "not found") {
			return evid.F("present-variable-reported-missing:collection-edited", "%q: every variable is in the collection now, yet: %v", c.Text, e3)
		}
	}
	if len(occ) > 0 {
		// every variable present but holding Null: present is present, whatever the value
		vc := variables.NewVariableCollection()
		for _, o := range occ {
			vc.Add(variables.NewVariable(o, variants.EmptyVariant()))
		}
		fc := functions.NewFunctionCollection()
		for _, f := range funcs {
			fc.Add(tupFunction(f))
		}
		var nerr error
		if g := guard(func() { _, nerr = calc2.EvaluateUsingVariablesAndFunctions(vc, fc) }); g != nil {
			return g
		}
		if nerr != nil && strings.Contains(nerr.Error(), "not found") {
			return evid.F("present-variable-reported-missing", "%q with every variable present and Null: %v", c.Text, nerr)
		}
	}
	if len(funcs) > 0 {
		missing := funcs[0]
		vc := variables.NewVariableCollection()
		for _, o := range occ {
			vc.Add(variables.NewVariable(o, variants.VariantFromInteger(1)))
		}
		fc := functions.NewFunctionCollection()
		for _, f := range funcs {
			if !strings.EqualFold(f, missing) {
				fc.Add(tupFunction(f))
			}
		}
		var v *variants.Variant
		if g := guard(func() { v, err = calc2.EvaluateUsingVariablesAndFunctions(vc, fc) }); g != nil {
			return g
		}
		if err == nil {
			return evid.F("missing-function:no-error", "%q evaluated to %s although function %q is missing", c.Text, fromVariant(v), missing)
		}
		if !strings.Contains(strings.ToUpper(err.Error()), strings.ToUpper(missing)) {
			// an earlier runtime error (e.g. an undefined operation) may legitimately come first
			if strings.Contains(err.Error(), "was not found") {
				return evid.F("missing-function:error-does-not-name-it", "%q: the error for the missing function %q is %q", c.Text, missing, err.Error())
			}
		}
	}
	return nil
}

// quoteIdents writes names as quoted identifiers (valid for any name).
func quoteIdents(names []string) []string {
	out := make([]string, len(names))
	for i, n := range names {
		out[i] = "\"" + strings.ReplaceAll(n, "\"", "\"\"") + "\""
	}
	return out
}

func init() { regReplay("C18.expr", checkC18Expr) }

var c18Idents = []string{"a", "b", "abc", "Total", "x1", "_y", "my var", "AND", "q\"t", "été", "qty[1]", "qty{1}", "r^", "r~", "k@", "k`"}

func c18IdentGen(t *rapid.T, base string) string {
	var sb strings.Builder
	for _, r := range base {
		if r < 0x80 && rapid.Bool().Draw(t, "uc") {
			sb.WriteString(strings.ToUpper(string(r)))
		} else if r < 0x80 && rapid.Bool().Draw(t, "lc") {
			sb.WriteString(strings.ToLower(string(r)))
		} else {
			sb.WriteRune(r)
		}
	}
	name := sb.String()
	plain := true
	for i, r := range name {
		if !(isLatin(r) || r == '_' || isLatin1(r) || (i > 0 && (isDigit(r) || isBMPHigh(r)))) {
			plain = false
		}
	}
	for _, k := range exprKeywords {
		if strings.EqualFold(k, name) {
			plain = false
		}
	}
	if !plain || rapid.IntRange(0, 4).Draw(t, "quote") == 0 {
		return "\"" + strings.ReplaceAll(name, "\"", "\"\"") + "\""
	}
	return name
}

const c18Rule = "(a) generated expressions with identifiers in every position (plain and quoted, re-spelt in random letter case, function names equal to variable names, keywords inside strings); (b) generated templates; (c) histories of collection operations; oracle: the reported names are exactly the identifiers in variable position in order of first occurrence (case-insensitive merging allowed), automatic variables create exactly one entry per name and keep previous entries, missing names are reported in the error, collections behave as an ordered list with first-added-wins case-insensitive lookup; non-trivial = two spellings of one name, an identifier used both as function and variable, or a removal followed by a lookup; distinct by case"

func TestC18_RapidExpressions(t *testing.T) {
	rec := evid.New("C18", "TestC18_RapidExpressions", "C18.expr", c18Rule)
	defer finish(t, rec)
	cfg := &genCfg{vars: c18Idents, funcs: []string{"a", "abc", "Sum", "f", "Total", "max", "ABS"}, maxArgs: 3, identGen: c18IdentGen,
		consts: func(t *rapid.T) string {
			return rapid.SampledFrom([]string{"1", "2.5", "'a'", "'AND'", "'abc'", "TRUE", "'if'", "'Total'"}).Draw(t, "const")
		}}
	runRapid(t, pick(25000, 200000), 18, func(rt *rapid.T) {
		tree := genSized(rt, cfg, rapid.SampledFrom([]int{1, 2, 3, 5, 8, 12, 20}).Draw(rt, "size"))
		if rapid.IntRange(0, 14).Draw(rt, "manyvars") == 0 {
			// many distinct variables, several of them used more than once (v1 .. v40)
			k := rapid.IntRange(12, 40).Draw(rt, "nvars")
			for i := 0; i < k+rapid.IntRange(2, 12).Draw(rt, "repeats"); i++ {
				name := fmt.Sprintf("v%d", 1+i%k)
				if i >= k {
					name = fmt.Sprintf("v%d", rapid.IntRange(1, k).Draw(rt, "again"))
				}
				tree = &node{Op: rapid.SampledFrom([]string{"+", "-", "*"}).Draw(rt, "mvop"), Kids: []*node{tree, {Op: "var", Tok: name}}}
			}
		}
		toks := printTokens(tree, rapid.IntRange(0, 2).Draw(rt, "style"), func() bool { return rapid.IntRange(0, 5).Draw(rt, "xp") == 0 })
		c := c18ExprCase{Toks: toks, Text: spellRandom(rt, toks)}
		npre := rapid.IntRange(0, 3).Draw(rt, "npre")
		used := map[string]bool{}
		for i := 0; i < npre; i++ {
			n := c18IdentGen(rt, rapid.SampledFrom(append([]string{"other", "Z"}, c18Idents...)).Draw(rt, "prename"))
			n = identName(n)
			if used[strings.ToUpper(n)] {
				continue
			}
			used[strings.ToUpper(n)] = true
			c.Pre = append(c.Pre, binding{n, genC01Value(rt)})
		}
		occ, funcs := exprVariableOccurrences(toks)
		spell := map[string]map[string]bool{}
		nt := false
		for _, o := range occ {
			u := strings.ToUpper(o)
			if spell[u] == nil {
				spell[u] = map[string]bool{}
			}
			spell[u][o] = true
			if len(spell[u]) >= 2 {
				nt = true
			}
			for _, f := range funcs {
				if strings.EqualFold(f, o) {
					nt = true
				}
			}
		}
		rec.Case(c.Text+jsonStr(c.Pre), nt, func() interface{} { return map[string]interface{}{"text": c.Text, "pre": fmt.Sprint(c.Pre)} })
		if f := checkC18Expr(c); f != nil {
			if rec.Fail(f, c) {
				rt.Fatalf("%v", f)
			}
		}
	})
}

// ---- (b) templates -----------------------------------------------------------------------------------

type c18TmplCase struct {
	Tree     []*mnode          `json:"tree"`
	Template string            `json:"template"`
	Pre      map[string]string `json:"pre"`
}

func templateNameOccurrences(nodes []*mnode, out []string) []string {
	for _, n := range nodes {
		switch n.Kind {
		case "var", "esc":
			out = append(out, n.Val)
		case "sec", "inv":
			out = append(out, n.Val)
			out = templateNameOccurrences(n.Kids, out)
			if n.Spell&2 == 0 {
				out = append(out, n.Val) // the closer repeats the name
			}
		}
	}
	return out
}

func checkC18Tmpl(c c18TmplCase) *evid.Fail {
	occ := templateNameOccurrences(c.Tree, nil)
	p := mparsers.NewMustacheParser()
	var err error
	if g := guard(func() { err = p.ParseString(c.Template) }); g != nil {
		return g
	}
	if err != nil {
		return evid.F("well-formed-rejected", "template %q rejected: %v", c.Template, err)
	}
	if f := checkNameList(fmt.Sprintf("template %q", c.Template), p.VariableNames(), occ, strings.ToLower); f != nil {
		return f
	}
	t := mustache.NewMustacheTemplate()
	vars := map[string]string{}
	for k, v := range c.Pre {
		vars[k] = v
	}
	t.SetDefaultVariables(vars)
	if g := guard(func() { err = t.SetTemplate(c.Template) }); g != nil {
		return g
	}
	if err != nil {
		return evid.F("well-formed-rejected", "template %q rejected: %v", c.Template, err)
	}
	got := t.DefaultVariables()
	for k, v := range c.Pre {
		if gv, ok := got[k]; !ok || gv != v {
			return evid.F("autovars:previous-entry-changed", "template %q: default variable %q was %q, now %q (present=%v)", c.Template, k, v, gv, ok)
		}
	}
	count := map[string]int{}
	for k := range got {
		count[strings.ToLower(k)]++
	}
	want := map[string]bool{}
	for _, o := range occ {
		want[strings.ToLower(o)] = true
		if count[strings.ToLower(o)] != 1 {
			return evid.F("autovars:entries-per-name", "template %q: %d default variables for name %q (%v)", c.Template, count[strings.ToLower(o)], o, sortedMap(got))
		}
	}
	for k := range c.Pre {
		want[strings.ToLower(k)] = true
	}
	for k := range got {
		if !want[strings.ToLower(k)] {
			return evid.F("autovars:spurious-entry", "template %q: default variable %q is no variable of the template", c.Template, k)
		}
	}
	return nil
}

func init() { regReplay("C18.tmpl", checkC18Tmpl) }

func TestC18_RapidTemplates(t *testing.T) {
	rec := evid.New("C18", "TestC18_RapidTemplates", "C18.tmpl", c18Rule)
	defer finish(t, rec)
	runRapid(t, pick(15000, 120000), 1818, func(rt *rapid.T) {
		budget := rapid.SampledFrom([]int{2, 4, 6, 10, 16}).Draw(rt, "budget")
		tree := fixEdges(genNodes(rt, rapid.IntRange(0, 4).Draw(rt, "depth"), &budget))
		// re-spell names: same name in different letter case at different places (closers keep their opener's spelling)
		var respell func(ns []*mnode)
		respell = func(ns []*mnode) {
			for _, n := range ns {
				if n.Kind != "text" && n.Kind != "comment" {
					n.Val = randomCase(rt, n.Val)
				}
				respell(n.Kids)
			}
		}
		respell(tree)
		var sb strings.Builder
		mPrint(tree, &sb)
		c := c18TmplCase{Tree: tree, Template: sb.String(), Pre: map[string]string{}}
		for i := rapid.IntRange(0, 2).Draw(rt, "npre"); i > 0; i-- {
			k := randomCase(rt, rapid.SampledFrom(append([]string{"other"}, c10Names...)).Draw(rt, "prekey"))
			dup := false
			for e := range c.Pre {
				// the library compares names after strings.ToLower (not Unicode case folding): keys must be unique under that
				if strings.ToLower(e) == strings.ToLower(k) || strings.EqualFold(e, k) {
					dup = true
				}
			}
			if !dup {
				c.Pre[k] = rapid.SampledFrom([]string{"", "v", "w w"}).Draw(rt, "preval")
			}
		}
		occ := templateNameOccurrences(tree, nil)
		spell := map[string]map[string]bool{}
		nt := false
		for _, o := range occ {
			l := strings.ToLower(o)
			if spell[l] == nil {
				spell[l] = map[string]bool{}
			}
			spell[l][o] = true
			if len(spell[l]) >= 2 {
				nt = true
			}
		}
		rec.Case(c.Template+sortedMap(c.Pre), nt, func() interface{} { return map[string]interface{}{"template": c.Template, "pre": sortedMap(c.Pre)} })
		if f := checkC18Tmpl(c); f != nil {
			if rec.Fail(f, c) {
				rt.Fatalf("%v", f)
			}
		}
	})
}

// ---- (c) collections against an ordered list model ----------------------------------------------------

type c18CollOp struct {
	Op   string `json:"op"`
	Name string `json:"name,omitempty"`
	Idx  int    `json:"idx,omitempty"`
}

type c18CollCase struct {
	Kind string      `json:"kind"` // variables | functions
	Ops  []c18CollOp `json:"ops"`
}

type c18Entry struct {
	name string
	id   int // identity of the entry (value for variables, function object for functions)
	val  int // variables: current value (-1 = cleared to Null)
}

func checkC18Coll(c c18CollCase) *evid.Fail {
	var res *evid.Fail
	if g := guard(func() {
		vc := variables.NewVariableCollection()
		var fc functions.IFunctionCollection = functions.NewFunctionCollection()
		var model []c18Entry
		funcsByID := map[int]functions.IFunction{}
		callerValues := map[int]*variants.Variant{} // the value objects handed to Add stay the caller's
		nextID := 0
		if c.Kind == "default-functions" {
			// the collection of standard functions is an ordered list like any other: it starts with its 37 entries
			d := functions.NewDefaultFunctionCollection()
			for _, f := range d.GetAll() {
				nextID++
				funcsByID[nextID] = f
				model = append(model, c18Entry{f.Name(), nextID, nextID})
			}
			fc = d
		}
		find := func(name string) int {
			for i, e := range model {
				if strings.EqualFold(e.name, name) {
					return i
				}
			}
			return -1
		}
		bad := func(step int, sig, format string, a ...interface{}) {
			res = evid.F("collection:"+c.Kind+":"+sig, "step %d of %v: %s", step, c.Ops[:step+1], fmt.Sprintf(format, a...))
		}
		nameAt := func(i int) string {
			if c.Kind == "variables" {
				return vc.Get(i).Name()
			}
			return fc.Get(i).Name()
		}
		length := func() int {
			if c.Kind == "variables" {
				return vc.Length()
			}
			return fc.Length()
		}
		for step, op := range c.Ops {
			switch op.Op {
			case "add":
				nextID++
				if c.Kind == "variables" {
					callerValues[nextID] = variants.VariantFromInteger(nextID)
					vc.Add(variables.NewVariable(op.Name, callerValues[nextID]))
				} else {
					f := tupFunction(op.Name)
					funcsByID[nextID] = f
					fc.Add(f)
				}
				model = append(model, c18Entry{op.Name, nextID, nextID})
			case "readd":
				// the very object of an existing entry is added once more (two modules sharing one function, one variable
				// registered twice): the list gets one more entry
				if len(model) == 0 {
					continue
				}
				if c.Kind == "variables" {
					continue // one variable object under two entries shares its value by construction; functions have no state
				}
				e := model[op.Idx%len(model)]
				fc.Add(funcsByID[e.id])
				model = append(model, e)
			case "find":
				want := find(op.Name)
				if c.Kind == "variables" {
					got := vc.FindByName(op.Name)
					gi := vc.FindIndexByName(op.Name)
					if gi != want || (got == nil) != (want < 0) {
						bad(step, "find", "FindIndexByName(%q) = %d, FindByName nil=%v, model index %d", op.Name, gi, got == nil, want)
						return
					}
					if want >= 0 && (got.Name() != model[want].name || !equalVal(fromVariant(got.Value()), modelVal(model[want]))) {
						bad(step, "find-first-added-wins", "FindByName(%q) = %s=%s, the first matching entry is %s=%s", op.Name, got.Name(), fromVariant(got.Value()), model[want].name, modelVal(model[want]))
						return
					}
				} else {
					got := fc.FindByName(op.Name)
					gi := fc.FindIndexByName(op.Name)
					if gi != want || (got == nil) != (want < 0) {
						bad(step, "find", "FindIndexByName(%q) = %d, FindByName nil=%v, model index %d", op.Name, gi, got == nil, want)
						return
					}
					if want >= 0 && got != funcsByID[model[want].id] {
						bad(step, "find-first-added-wins", "FindByName(%q) returned %q, not the first function added under that name", op.Name, got.Name())
						return
					}
				}
			case "locate":
				if c.Kind != "variables" {
					continue
				}
				want := find(op.Name)
				got := vc.Locate(op.Name)
				if got == nil {
					bad(step, "locate-nil", "Locate(%q) returned nil", op.Name)
					return
				}
				if want < 0 {
					model = append(model, c18Entry{op.Name, 0, -1})
					want = len(model) - 1
				}
				if got.Name() != model[want].name || !equalVal(fromVariant(got.Value()), modelVal(model[want])) {
					bad(step, "locate", "Locate(%q) = %s=%s, expected %s=%s", op.Name, got.Name(), fromVariant(got.Value()), model[want].name, modelVal(model[want]))
					return
				}
			case "remove":
				if len(model) == 0 {
					continue
				}
				i := op.Idx % len(model)
				if c.Kind == "variables" {
					vc.Remove(i)
				} else {
					fc.Remove(i)
				}
				model = append(append([]c18Entry{}, model[:i]...), model[i+1:]...)
			case "removeByName":
				if c.Kind == "variables" {
					vc.RemoveByName(op.Name)
				} else {
					fc.RemoveByName(op.Name)
				}
				if i := find(op.Name); i >= 0 {
					model = append(append([]c18Entry{}, model[:i]...), model[i+1:]...)
				}
			case "clear":
				if c.Kind == "variables" {
					vc.Clear()
				} else {
					fc.Clear()
				}
				model = nil
			case "clearValues":
				if c.Kind != "variables" {
					continue
				}
				vc.ClearValues()
				for i := range model {
					model[i].val = -1
				}
				if len(model) > 1 {
					// every cleared variable has a Null of its own: the caller writes into one of them in place
					k := op.Idx % len(model)
					vc.Get(k).Value().SetAsInteger(4242)
					if !variants.Empty.IsNull() {
						variants.Empty.Clear()
						bad(step, "clearvalues-hands-out-shared-null", "after ClearValues a write into the value of entry %d changed the library's shared Null constant", k)
						return
					}
					for i := range model {
						if i != k && !vc.Get(i).Value().IsNull() {
							bad(step, "clearvalues-shares-one-object", "after ClearValues a write into the value of entry %d shows in entry %d", k, i)
							return
						}
					}
					vc.Get(k).Value().Clear()
				}
				for id, v := range callerValues {
					if v.Type() != variants.Integer || v.AsInteger() != id {
						bad(step, "clearvalues-changed-callers-object", "ClearValues changed the value object the caller had added for entry #%d to %s", id, fromVariant(v))
						return
					}
				}
			}
			// the whole list after every step
			if length() != len(model) {
				bad(step, "length", "Length() = %d, model %d", length(), len(model))
				return
			}
			for i, e := range model {
				if nameAt(i) != e.name {
					bad(step, "order", "entry %d is %q, model %q", i, nameAt(i), e.name)
					return
				}
				if c.Kind == "variables" {
					if !equalVal(fromVariant(vc.Get(i).Value()), modelVal(e)) {
						bad(step, "value", "entry %d %q holds %s, model %s", i, e.name, fromVariant(vc.Get(i).Value()), modelVal(e))
						return
					}
				} else if e.id != 0 && fc.Get(i) != funcsByID[e.id] {
					bad(step, "identity", "entry %d %q is not the function object that was added", i, e.name)
					return
				}
			}
			if c.Kind == "variables" {
				if all := vc.GetAll(); len(all) != len(model) {
					bad(step, "getall", "GetAll has %d entries, model %d", len(all), len(model))
					return
				}
			} else if all := fc.GetAll(); len(all) != len(model) {
				bad(step, "getall", "GetAll has %d entries, model %d", len(all), len(model))
				return
			}
		}
	}); g != nil {
		return g
	}
	return res
}

func modelVal(e c18Entry) val {
	if e.val < 0 {
		return vNull()
	}
	return vInt(e.val)
}

func init() { regReplay("C18.coll", checkC18Coll) }

func TestC18_RapidCollections(t *testing.T) {
	rec := evid.New("C18", "TestC18_RapidCollections", "C18.coll", c18Rule)
	defer finish(t, rec)
	// the last five: spellings of one name whose UTF-8 lengths differ (U+2C65 / U+023A, U+017F / S / s)
	names := []string{"a", "A", "b", "B", "ab", "Ab", "AB", "x", "q[", "q{", "r^", "r~", "k@", "k`", "é", "É", "ⱥb", "ȺB", "ſx", "SX", "sx"}
	opKinds := []string{"add", "add", "add", "find", "find", "locate", "remove", "removeByName", "clear", "clearValues", "readd"}
	runRapid(t, pick(30000, 200000), 181818, func(rt *rapid.T) {
		c := c18CollCase{Kind: rapid.SampledFrom([]string{"variables", "functions", "default-functions"}).Draw(rt, "kind")}
		n := rapid.IntRange(1, 16).Draw(rt, "n")
		names := names
		if c.Kind == "default-functions" {
			names = []string{"max", "MAX", "Sum", "rnd", "RANDOM", "If", "array", "Ticks", "NULL", "date", "a", "A", "zz"}
		}
		long := rapid.IntRange(0, 19).Draw(rt, "long") == 0
		if long {
			n = rapid.IntRange(40, 160).Draw(rt, "longn") // big collections: dozens of entries
		}
		removed, nt := false, false
		for i := 0; i < n; i++ {
			op := c18CollOp{Op: rapid.SampledFrom(opKinds).Draw(rt, "op"), Name: rapid.SampledFrom(names).Draw(rt, "name"), Idx: rapid.IntRange(0, 7).Draw(rt, "idx")}
			if long {
				op.Name = fmt.Sprintf("%s%d", rapid.SampledFrom([]string{"n", "N", "total", "Total"}).Draw(rt, "stem"), rapid.IntRange(1, 50).Draw(rt, "num"))
				op.Idx = rapid.IntRange(0, 60).Draw(rt, "bigidx")
				if op.Op == "clear" && rapid.IntRange(0, 3).Draw(rt, "keep") != 0 {
					op.Op = "add"
				}
			}
			if op.Op == "remove" || op.Op == "removeByName" {
				removed = true
			}
			if removed && (op.Op == "find" || op.Op == "locate") {
				nt = true
			}
			c.Ops = append(c.Ops, op)
		}
		rec.Case(jsonStr(c), nt, func() interface{} { return c }, "kind:"+c.Kind)
		if f := checkC18Coll(c); f != nil {
			if rec.Fail(f, c) {
				rt.Fatalf("%v", f)
			}
		}
	})
}

func TestC18_ExhaustiveCollections(t *testing.T) {
	rec := evid.New("C18", "TestC18_ExhaustiveCollections", "C18.coll", c18Rule)
	rec.Exhaustive = true
	rec.DupFree = true
	defer finish(t, rec)
	alpha := []c18CollOp{{Op: "add", Name: "a"}, {Op: "add", Name: "A"}, {Op: "add", Name: "b"}, {Op: "find", Name: "A"}, {Op: "find", Name: "B"}, {Op: "locate", Name: "a"}, {Op: "locate", Name: "c"},
		{Op: "remove", Idx: 0}, {Op: "remove", Idx: 1}, {Op: "removeByName", Name: "A"}, {Op: "clear"}, {Op: "clearValues"}, {Op: "readd", Idx: 0}}
	depth := pick(4, 5)
	rec.Bounds = fmt.Sprintf("all histories of length 1..%d over %d operations (add a/A/b, find A/B, locate a/c, remove index 0/1, removeByName A, clear, clearValues) x both collections", depth, len(alpha))
	idx := make([]string, len(alpha))
	for i := range alpha {
		idx[i] = fmt.Sprint(i)
	}
	enumStrings(idx, depth, false, func(parts []string) {
		ops := make([]c18CollOp, len(parts))
		for i, p := range parts {
			var k int
			fmt.Sscan(p, &k)
			ops[i] = alpha[k]
		}
		for _, kind := range []string{"variables", "functions"} {
			c := c18CollCase{kind, ops}
			rec.Case(kind+fmt.Sprint(parts), true, func() interface{} { return c })
			if f := checkC18Coll(c); f != nil {
				rec.Fail(f, c)
			}
		}
	})
	// the collection of standard functions: the same list discipline from its 37 entries on
	dalpha := []c18CollOp{{Op: "readd", Idx: 5}, {Op: "find", Name: "max"}, {Op: "find", Name: "RANDOM"}, {Op: "find", Name: "Array"}, {Op: "removeByName", Name: "MAX"}, {Op: "removeByName", Name: "random"},
		{Op: "remove", Idx: 0}, {Op: "remove", Idx: 36}, {Op: "add", Name: "Max"}, {Op: "add", Name: "zz"}, {Op: "find", Name: "ZZ"}, {Op: "clear"}}
	didx := make([]string, len(dalpha))
	for i := range dalpha {
		didx[i] = fmt.Sprint(i)
	}
	enumStrings(didx, depth-1, false, func(parts []string) {
		ops := make([]c18CollOp, len(parts))
		for i, p := range parts {
			var k int
			fmt.Sscan(p, &k)
			ops[i] = dalpha[k]
		}
		c := c18CollCase{"default-functions", ops}
		rec.Case("default-functions"+fmt.Sprint(parts), true, func() interface{} { return c })
		if f := checkC18Coll(c); f != nil {
			rec.Fail(f, c)
		}
	})
}
