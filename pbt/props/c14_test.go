package props

import (
	"fmt"
	cparsers "github.com/pip-services3-gox/pip-services3-expressions-gox/calculator/parsers"
	"github.com/pip-services3-gox/pip-services3-expressions-gox/variants"
	"strings"
	"testing"

	ctok "github.com/pip-services3-gox/pip-services3-expressions-gox/calculator/tokenizers"
	"github.com/pip-services3-gox/pip-services3-expressions-gox/csv"
	rio "github.com/pip-services3-gox/pip-services3-expressions-gox/io"
	"github.com/pip-services3-gox/pip-services3-expressions-gox/tokenizers"
	"github.com/pip-services3-gox/pip-services3-expressions-gox/tokenizers/generic"
	"pgregory.net/rapid"
	"verif/pbt/evid"
)

// C14 — quote encoding and decoding are inverse and total for all Unicode text.

type c14Case struct {
	State string `json:"state"` // generic | expression | csv
	Quote rune   `json:"quote"`
	S     string `json:"s"`
	Tail  string `json:"tail"`
	Raw   bool   `json:"raw"` // Raw: S is an arbitrary text handed to DecodeString (totality), not a string to encode
	// Used: what the state object did before (0 = it is new): 1 = read a literal that is never closed, to the end of
	// its text; 2 = read a closed literal; 3 = encoded and decoded another string; 4 = decoded a lone quote character
	Used int `json:"used,omitempty"`
}

var c14States = []string{"generic", "expression", "csv"}
var c14Quotes = []rune{'\'', '"', '`', '«', '“'}

func newQuoteState(kind string) tokenizers.IQuoteState {
	switch kind {
	case "generic":
		return generic.NewGenericQuoteState()
	case "expression":
		return ctok.NewExpressionQuoteState()
	case "csv":
		return csv.NewCsvQuoteState()
	}
	panic("unknown quote state " + kind)
}

func checkC14(c c14Case) *evid.Fail {
	var res *evid.Fail
	if g := guard(func() {
		st := newQuoteState(c.State)
		switch c.Used {
		case 1:
			st.NextToken(rio.NewStringScanner(string(c.Quote)+"left open "+c.S), nil)
		case 2:
			st.NextToken(rio.NewStringScanner(st.EncodeString("closed", c.Quote)+" x"), nil)
		case 3:
			st.DecodeString(st.EncodeString("other"+string(c.Quote)+"text", c.Quote), c.Quote)
		case 4:
			st.DecodeString(string(c.Quote), c.Quote)
		}
		if c.Raw {
			_ = st.DecodeString(c.S, c.Quote) // totality: must return
			return
		}
		enc := st.EncodeString(c.S, c.Quote)
		dec := st.DecodeString(enc, c.Quote)
		if dec != c.S {
			res = evid.F("roundtrip:"+c.State, "%s state, quote %q: Decode(Encode(%q)) = Decode(%q) = %q", c.State, c.Quote, c.S, enc, dec)
			return
		}
		if c.State == "generic" {
			return
		}
		// stream: the encoded form followed by a tail that cannot extend it is exactly one token
		sc := rio.NewStringScanner(enc + c.Tail)
		tk := st.NextToken(sc, nil)
		if tk == nil {
			res = evid.F("stream:nil-token", "%s state returned nil for %q", c.State, enc+c.Tail)
			return
		}
		if tk.Value() != enc {
			sig := "stream:token-too-short"
			if len(tk.Value()) > len(enc) {
				sig = "stream:token-too-long"
			}
			res = evid.F(sig+":"+c.State, "%s state, quote %q: from %q read token %q, want exactly the encoded text %q", c.State, c.Quote, enc+c.Tail, tk.Value(), enc)
			return
		}
		if d := st.DecodeString(tk.Value(), c.Quote); d != c.S {
			res = evid.F("stream:decode:"+c.State, "%s state: token %q decodes to %q, want %q", c.State, tk.Value(), d, c.S)
			return
		}
		var rest []rune
		for ch := sc.Read(); ch != -1; ch = sc.Read() {
			rest = append(rest, ch)
		}
		if string(rest) != c.Tail {
			res = evid.F("stream:scanner-position:"+c.State, "%s state: after the token the scanner continues with %q, want the tail %q", c.State, string(rest), c.Tail)
		}
	}); g != nil {
		return g
	}
	return res
}

func init() { regReplay("C14", checkC14) }

const c14Rule = "quote state x quote character x string (x tail for the stream test, or raw text for the totality test); oracle: Decode(Encode(s)) == s, DecodeString returns for every text, and the encoded form in a stream is read back as exactly one token that decodes to s with the scanner left at the tail; non-trivial = the string contains the quote character or a multi-byte character; distinct by (state, quote, string, tail, raw)"

func c14NonTrivial(c c14Case) bool {
	if strings.ContainsRune(c.S, c.Quote) {
		return true
	}
	for _, r := range c.S {
		if r >= 0x80 {
			return true
		}
	}
	return false
}

func c14Run(rec *evid.Recorder, c c14Case) bool {
	lab := "encode"
	if c.Raw {
		lab = "raw-decode"
	}
	rec.Case(jsonStr(c), c14NonTrivial(c), func() interface{} { return c }, "state:"+c.State, lab)
	if f := checkC14(c); f != nil {
		return rec.Fail(f, c)
	}
	return false
}

func TestC14_Exhaustive(t *testing.T) {
	rec := evid.New("C14", "TestC14_Exhaustive", "C14", c14Rule)
	rec.Exhaustive = true
	rec.DupFree = true
	defer finish(t, rec)
	maxLen := pick(5, 6)
	rec.Bounds = fmt.Sprintf("all strings of length 0..%d over {quote, other quote, a, é, 中, 😀, space, LF, backslash} x 5 quote characters (1-, 2- and 3-byte) x 3 states, each as a string to encode (tails: none, 'x', other quote, space) and as raw text to decode", maxLen)
	for qi, q := range c14Quotes {
		other := c14Quotes[(qi+1)%len(c14Quotes)]
		alphabet := []string{string(q), string(other), "a", "é", "中", "😀", " ", "\n", "\\"}
		tails := []string{"", "x", string(other) + "z", " " + string(q)}
		qq := q
		enumStrings(alphabet, maxLen, true, func(parts []string) {
			s := runesOf(parts)
			used := 1 + (len(s)+len(parts))%4 // what a state object that is not new has done before, by turns
			for _, st := range c14States {
				c14Run(rec, c14Case{State: st, Quote: qq, S: s, Raw: true})
				if st == "generic" {
					c14Run(rec, c14Case{State: st, Quote: qq, S: s})
					c14Run(rec, c14Case{State: st, Quote: qq, S: s, Used: used})
					continue
				}
				for ti, tail := range tails {
					c14Run(rec, c14Case{State: st, Quote: qq, S: s, Tail: tail})
					if ti == len(parts)%len(tails) {
						c14Run(rec, c14Case{State: st, Quote: qq, S: s, Tail: tail, Used: used})
					}
				}
			}
		})
	}
	requireLabels(t, rec, "state:generic", "state:expression", "state:csv", "raw-decode", "encode")
}

func TestC14_Rapid(t *testing.T) {
	rec := evid.New("C14", "TestC14_Rapid", "C14", c14Rule+"; rapid: arbitrary Unicode strings up to 40 characters with the quote character sprinkled in")
	defer finish(t, rec)
	runRapid(t, pick(40000, 300000), 14, func(rt *rapid.T) {
		q := rapid.SampledFrom(append([]rune{'|', 'x', '😀', 0x100, 0xfffe}, c14Quotes...)).Draw(rt, "quote")
		n := rapid.IntRange(0, 40).Draw(rt, "len")
		var sb strings.Builder
		if rapid.IntRange(0, 49).Draw(rt, "huge") == 0 {
			// several KB of multi-byte text: buffer-size thresholds inside one literal
			sb.WriteString(strings.Repeat("x", rapid.IntRange(0, 3).Draw(rt, "shift")))
			sb.WriteString(strings.Repeat(rapid.SampledFrom([]string{"é", "中", "😀", "ab中"}).Draw(rt, "unit"), rapid.IntRange(1400, 3200).Draw(rt, "reps")))
		}
		for i := 0; i < n; i++ {
			switch rapid.IntRange(0, 4).Draw(rt, "k") {
			case 0:
				sb.WriteRune(q)
			case 1:
				sb.WriteRune(rapid.SampledFrom(c14Quotes).Draw(rt, "oq"))
			default:
				sb.WriteRune(genRune(rt))
			}
		}
		c := c14Case{State: rapid.SampledFrom(c14States).Draw(rt, "state"), Quote: q, S: sb.String(), Raw: rapid.IntRange(0, 3).Draw(rt, "raw") == 0}
		if rapid.IntRange(0, 2).Draw(rt, "usedstate") == 0 {
			c.Used = rapid.IntRange(1, 4).Draw(rt, "used")
		}
		if !c.Raw && c.State != "generic" {
			switch rapid.IntRange(0, 3).Draw(rt, "tail") {
			case 1:
				c.Tail = "z" + string(q) // q is never 'z': the tail must not start with the quote character
			case 2:
				r := genRune(rt)
				if r != q {
					c.Tail = string(r) + "tail" + string(q) + string(q)
				}
			case 3:
				c.Tail = " "
			}
		}
		if c14Run(rec, c) {
			rt.Fatalf("C14 violated: %+v", c)
		}
	})
}

func FuzzC14(f *testing.F) {
	for _, s := range fuzzSeedStrings {
		f.Add(s, uint8(0), uint8(0), false)
	}
	f.Add("'é'", uint8(1), uint8(0), true)
	f.Add("a''b", uint8(2), uint8(0), false)
	f.Fuzz(func(t *testing.T, s string, st uint8, qi uint8, raw bool) {
		if len(s) > 1<<16 {
			t.Skip()
		}
		c := c14Case{State: c14States[int(st)%3], Quote: c14Quotes[int(qi)%len(c14Quotes)], S: string([]rune(s)), Raw: raw}
		if fl := checkC14(c); fl != nil {
			if _, known := evid.IsKnown("C14", fl.Sig); !known {
				t.Fatalf("VIOLATION-SIG %s :: %s :: %s", fl.Sig, fl.Msg, jsonStr(c))
			}
		}
	})
}

// ---- the same through configured tokenizers: the encoded form as one token in a CSV / expression token stream ----

type c14TokCase struct {
	Tok    string   `json:"tok"` // csv | expression
	Quotes []rune   `json:"quotes"`
	Seps   []rune   `json:"seps"`
	Setup  []string `json:"setup"` // csv: order of the configuration calls, incl. rejected ones (see c09Configure)
	S      string   `json:"s"`
	Before string   `json:"before"` // unquoted text in front of the literal ("" or text ending in a blank / separator / nothing)
	After  string   `json:"after"`
	Alias  int      `json:"alias,omitempty"` // csv: how the caller holds the lists it passes (see c09Case.Alias)
	// Skip > 0: the caller's scanner holds that many characters of other text in front, which the caller has read
	// itself before handing the scanner to TokenizeStream
	Skip int `json:"skip,omitempty"`
	// Opts: options switched on besides string decoding (skip / merge / unify bits as in the option checks)
	Opts int `json:"opts,omitempty"`
}

func checkC14Tok(c c14TokCase) *evid.Fail {
	var res *evid.Fail
	if g := guard(func() {
		var t tokenizers.ITokenizer
		q := c.Quotes[(len(c.S)+len(c.After))%len(c.Quotes)] // any of the configured quote symbols
		var st tokenizers.IQuoteState
		if c.Tok == "csv" {
			ct := csv.NewCsvTokenizer()
			c09Configure(ct, c09Case{Seps: c.Seps, Quotes: c.Quotes, Setup: c.Setup, Alias: c.Alias})
			t, st = ct, ct.QuoteState()
		} else {
			et := ctok.NewExpressionTokenizer()
			t, st = et, et.QuoteState()
			q = '\''
		}
		enc := st.EncodeString(c.S, q)
		text := c.Before + enc + c.After
		if c.Opts != 0 {
			setOptions(t, c.Opts|optDecodeStrings)
		}
		t.SetDecodeStrings(true)
		var hits int
		var all []string
		stream := t.TokenizeBuffer(text)
		if c.Skip > 0 {
			sc := rio.NewStringScanner(strings.Repeat("'skipped\n", c.Skip)[:c.Skip] + text)
			for i := 0; i < c.Skip; i++ {
				sc.Read()
			}
			stream = t.TokenizeStream(sc)
		}
		for _, tk := range stream {
			all = append(all, fmt.Sprintf("%s(%q)", tokTypeName(tk.Type()), tk.Value()))
			if tk.Type() == tokenizers.Quoted {
				hits++
				if tk.Value() != c.S {
					res = evid.F("token-stream:decoded-value:"+c.Tok, "%s tokenizer (quotes %q, separators %q, setup %v): %q yields the quoted token %q, the literal encodes %q; tokens %v", c.Tok, string(c.Quotes), string(c.Seps), c.Setup, text, tk.Value(), c.S, all)
					return
				}
			}
		}
		// the string-list entry points deliver the same values, one string per token (an empty decoded value included)
		var vals []string
		for _, tk := range t.TokenizeBuffer(text) {
			vals = append(vals, tk.Value())
		}
		for name, strs := range map[string][]string{"TokenizeBufferToStrings": t.TokenizeBufferToStrings(text), "TokenizeStreamToStrings": t.TokenizeStreamToStrings(rio.NewStringScanner(text))} {
			if fmt.Sprintf("%q", strs) != fmt.Sprintf("%q", vals) && res == nil {
				res = evid.F("token-stream:tostrings-differs:"+c.Tok, "%s tokenizer with decoding on, text %q: token values %q, %s gives %q", c.Tok, text, vals, name, strs)
				return
			}
		}
		if c.Tok == "expression" && res == nil {
			// the same literal through the expression parser (the stream most callers ever put it in): one constant
			// holding the original string
			p := cparsers.NewExpressionParser()
			if perr := p.ParseString(enc); perr != nil {
				res = evid.F("token-stream:parser-rejects-literal", "the expression parser rejects the literal %q (encodes %q): %v", enc, c.S, perr)
				return
			}
			rt := p.ResultTokens()
			if len(rt) != 1 || rt[0].Value() == nil || rt[0].Value().Type() != variants.String || rt[0].Value().AsString() != c.S {
				res = evid.F("token-stream:parser-value", "the expression parser compiles the literal %q to %s, it encodes %q", enc, exprTokensRepr(rt), c.S)
				return
			}
			// the other quote character of the expression language writes a name: one variable named by the string,
			// whatever the string spells (an empty name is no name)
			if strings.Trim(c.S, " \t\r\n") != "" || c.S == "" {
				encName := st.EncodeString(c.S, '"')
				perr := p.ParseString(encName)
				if c.S == "" {
					if perr == nil {
						res = evid.F("token-stream:parser-accepts-empty-name", "the expression parser accepts the empty quoted name %q", encName)
						return
					}
				} else if rn := p.ResultTokens(); perr != nil || len(rn) != 1 || rn[0].Type() != cparsers.Variable || rn[0].Value() == nil || rn[0].Value().AsString() != c.S {
					res = evid.F("token-stream:parser-name", "the expression parser compiles the quoted name %q (%v) to %s, it names %q", encName, perr, exprTokensRepr(rn), c.S)
					return
				}
			}
		}
		if hits != 1 {
			res = evid.F("token-stream:not-one-token:"+c.Tok, "%s tokenizer (quotes %q, separators %q, setup %v): the encoded form of %q inside %q arrived as %d quoted tokens: %v", c.Tok, string(c.Quotes), string(c.Seps), c.Setup, c.S, text, hits, all)
		}
	}); g != nil {
		return g
	}
	return res
}

func init() { regReplay("C14.tok", checkC14Tok) }

func TestC14_RapidTokenStreams(t *testing.T) {
	rec := evid.New("C14", "TestC14_RapidTokenStreams", "C14.tok", c14Rule+"; through configured tokenizers: the encoded form, placed behind unquoted text and in front of a separator, in a CSV tokenizer configured in any order of setter calls (rejected calls included) or in the expression tokenizer, arrives as exactly one Quoted token carrying the original string")
	defer finish(t, rec)
	quotePool := []rune{'"', '\'', '`', '«', '“', '”', '»'} // with neighbouring code points
	sepPool := []rune{',', ';', '\t', '|', '，', '－', ':'}
	runRapid(t, pick(20000, 150000), 1414, func(rt *rapid.T) {
		c := c14TokCase{Tok: rapid.SampledFrom([]string{"csv", "csv", "expression"}).Draw(rt, "tok")}
		c.Quotes = rapid.SliceOfNDistinct(rapid.SampledFrom(quotePool), 1, 2, func(r rune) rune { return r }).Draw(rt, "quotes")
		c.Seps = rapid.SliceOfNDistinct(rapid.SampledFrom(sepPool), 1, 2, func(r rune) rune { return r }).Draw(rt, "seps")
		valid := rapid.Permutation([]string{"seps", "quotes"}).Draw(rt, "order")
		extras := []string{"badseps", "badquotes", "eol:\n"}
		for _, r := range c.Quotes {
			// the tokenizer is used before it is configured: texts ending in a character whose class changes later
			extras = append(extras, "use:"+string(r), "use:a"+string(r), "use:"+string(r)+"b"+string(r))
		}
		for pos := 0; pos <= 2; pos++ {
			if rapid.IntRange(0, 2).Draw(rt, "extra") == 0 {
				c.Setup = append(c.Setup, rapid.SampledFrom(extras).Draw(rt, "which"))
			}
			if pos < 2 {
				c.Setup = append(c.Setup, valid[pos])
			}
		}
		if c.Tok == "csv" && rapid.IntRange(0, 3).Draw(rt, "aliased") == 0 {
			c.Alias = rapid.IntRange(1, 2).Draw(rt, "alias")
		}
		if rapid.IntRange(0, 3).Draw(rt, "skipped") == 0 {
			c.Skip = rapid.IntRange(1, 12).Draw(rt, "skip")
		}
		n := rapid.IntRange(0, 12).Draw(rt, "len")
		var sb strings.Builder
		for i := 0; i < n; i++ {
			switch rapid.IntRange(0, 5).Draw(rt, "k") {
			case 0:
				sb.WriteRune(c.Quotes[0])
			case 1:
				sb.WriteRune(rapid.SampledFrom(append(append([]rune{'\n', '\r'}, c.Seps...), c.Quotes...)).Draw(rt, "sig"))
			case 2:
				sb.WriteRune(genRune(rt))
			default:
				sb.WriteRune(rune(rapid.SampledFrom([]rune("abc 12")).Draw(rt, "plain")))
			}
		}
		c.S = sb.String()
		if c.Tok == "csv" {
			c.Before = rapid.SampledFrom([]string{"", "id 7 ", "word" + string(c.Seps[0]), "a b\n"}).Draw(rt, "before")
			c.After = rapid.SampledFrom([]string{"", string(c.Seps[0]) + "tail", "\n", string(c.Seps[len(c.Seps)-1])}).Draw(rt, "after")
		} else {
			c.Quotes, c.Seps, c.Setup = []rune{'\''}, nil, nil
			c.Before = rapid.SampledFrom([]string{"", "x = ", "f(", "1 + ", "/* note */", "x = /* ' */", "1 +\t\n", "/**/ /* c */", "/** note **/", "/****/ ", "x = /* a **/", "/***/"}).Draw(rt, "before")
			c.After = rapid.SampledFrom([]string{"", ")", " + 1", "\n", "/* c */"}).Draw(rt, "after")
			if rapid.Bool().Draw(rt, "withopts") {
				// what the expression parser itself switches on, and subsets / supersets of it
				c.Opts = rapid.SampledFrom([]int{optSkipComments, optSkipComments | optSkipEof, optSkipWhitespaces, optSkipComments | optSkipWhitespaces | optSkipEof, optSkipUnknown | optSkipComments, optMergeWhitespaces | optSkipComments, optAll}).Draw(rt, "opts")
			}
		}
		rec.Case(jsonStr(c), strings.ContainsRune(c.S, c.Quotes[0]) || len(c.Setup) > 2, func() interface{} { return c }, "tok:"+c.Tok)
		if f := checkC14Tok(c); f != nil && rec.Fail(f, c) {
			rt.Fatalf("%v", f)
		}
	})
}
