module verif/pbt

go 1.23

toolchain go1.23.5

require (
	github.com/pip-services3-gox/pip-services3-expressions-gox v0.0.0
	pgregory.net/rapid v1.3.0
)

require github.com/pip-services3-gox/pip-services3-commons-gox v1.0.8

replace github.com/pip-services3-gox/pip-services3-expressions-gox => /repo
