// Package evid is the per-run recorder of the verification harness: counters, label
// histogram, the set of distinct non-trivial case hashes, samples, failures (with the
// smallest reproducing case per signature) and the known-findings filter.
//
// One Recorder is created per Test function; Flush writes a partial evidence file into
// $VERIF_OUT which the driver (/verif/check) merges into /verif/evidence/<ID>.json.
package evid

import (
	"bufio"
	"encoding/binary"
	"encoding/json"
	"fmt"
	"hash/fnv"
	"os"
	"path/filepath"
	"sort"
	"strconv"
	"strings"
	"sync"
	"time"
)

// Failure is one violated oracle: a narrow semantic signature, a human message and the
// whole generated case (JSON) that the replay entry point can re-run.
type Failure struct {
	Sig   string          `json:"sig"`
	Msg   string          `json:"msg"`
	Kind  string          `json:"kind"`
	Case  json.RawMessage `json:"case"`
	Count int64           `json:"count"`
	Known bool            `json:"known"`
	What  string          `json:"what,omitempty"`
}

// Fail is what a pure check function returns for a violated oracle (nil = held).
type Fail struct {
	Sig string
	Msg string
}

func (f *Fail) Error() string { return f.Sig + ": " + f.Msg }

// F builds a Fail.
func F(sig, format string, a ...interface{}) *Fail {
	return &Fail{Sig: sig, Msg: fmt.Sprintf(format, a...)}
}

const hashCap = 4000000

const nShards = 64

type recShard struct {
	mu          sync.Mutex
	evaluations int64
	trivial     int64
	ntSeen      int64
	hashes      map[uint64]struct{}
	counted     int64
	labels      map[string]int64
	samples     []interface{}
	nextGeo     int64
	_           [64]byte
}

type Recorder struct {
	mu         sync.Mutex
	Prop       string
	Test       string
	Kind       string
	Rule       string
	Exhaustive bool
	Bounds     string
	// DupFree: the enumeration visits every case exactly once, so distinct non-trivial cases are
	// counted directly instead of through the (capped) hash set.
	DupFree   bool
	shards    [nShards]recShard
	capped    bool
	labels    map[string]int64
	failures  map[string]*Failure
	excluded  int64
	start     time.Time
	notes     []string
	fuzzExecs int64
}

var (
	knownOnce sync.Once
	known     map[string]map[string]string // prop -> sig -> what
)

// KnownFile is the committed known-findings file.
func KnownFile() string {
	if p := os.Getenv("VERIF_KNOWN"); p != "" {
		return p
	}
	return "/verif/KNOWN_FINDINGS.txt"
}

func loadKnown() {
	known = map[string]map[string]string{}
	f, err := os.Open(KnownFile())
	if err != nil {
		return
	}
	defer f.Close()
	sc := bufio.NewScanner(f)
	for sc.Scan() {
		line := strings.TrimSpace(sc.Text())
		// finding: property=C02 signature=<sig> <what fails>
		if !strings.HasPrefix(line, "finding:") {
			continue
		}
		fields := strings.Fields(strings.TrimPrefix(line, "finding:"))
		prop, sig := "", ""
		rest := []string{}
		for _, f := range fields {
			switch {
			case strings.HasPrefix(f, "property=") && prop == "":
				prop = strings.TrimPrefix(f, "property=")
			case strings.HasPrefix(f, "signature=") && sig == "":
				sig = strings.TrimPrefix(f, "signature=")
			default:
				rest = append(rest, f)
			}
		}
		if prop == "" || sig == "" {
			continue
		}
		if known[prop] == nil {
			known[prop] = map[string]string{}
		}
		known[prop][sig] = strings.Join(rest, " ")
	}
}

// IsKnown tells whether (prop, sig) is a listed finding.
func IsKnown(prop, sig string) (string, bool) {
	knownOnce.Do(loadKnown)
	w, ok := known[prop][sig]
	return w, ok
}

func New(prop, test, kind, rule string) *Recorder {
	r := &Recorder{
		Prop: prop, Test: test, Kind: kind, Rule: rule,
		labels:   map[string]int64{},
		failures: map[string]*Failure{},
		start:    time.Now(),
	}
	for i := range r.shards {
		r.shards[i].hashes = map[uint64]struct{}{}
		r.shards[i].labels = map[string]int64{}
		r.shards[i].nextGeo = 16
	}
	return r
}

func hashKey(key string) uint64 {
	h := fnv.New64a()
	h.Write([]byte(key))
	return h.Sum64()
}

// Case records one evaluated case. key is the canonical encoding used for distinctness;
// sample (may be nil) is something JSON-serialisable to show in the evidence.
func (r *Recorder) Case(key string, nontrivial bool, sample func() interface{}, labels ...string) {
	h := hashKey(key)
	sh := &r.shards[h%nShards]
	sh.mu.Lock()
	defer sh.mu.Unlock()
	sh.evaluations++
	for _, l := range labels {
		if l != "" {
			sh.labels[l]++
		}
	}
	if !nontrivial {
		sh.trivial++
		return
	}
	sh.ntSeen++
	if r.DupFree {
		sh.counted++
	} else if len(sh.hashes) < hashCap/nShards {
		sh.hashes[h] = struct{}{}
	} else {
		r.capped = true
	}
	if sample != nil {
		if len(sh.samples) < 1 {
			sh.samples = append(sh.samples, sample())
		} else if sh.ntSeen == sh.nextGeo {
			if len(sh.samples) < 3 {
				sh.samples = append(sh.samples, sample())
			}
			sh.nextGeo *= 16
		}
	}
}

// Label bumps a histogram bucket without counting a case.
func (r *Recorder) Label(l string, n int64) {
	r.mu.Lock()
	r.labels[l] += n
	r.mu.Unlock()
}

func (r *Recorder) LabelCount(l string) int64 {
	r.mu.Lock()
	n := r.labels[l]
	r.mu.Unlock()
	for i := range r.shards {
		sh := &r.shards[i]
		sh.mu.Lock()
		n += sh.labels[l]
		sh.mu.Unlock()
	}
	return n
}

func (r *Recorder) Excluded(n int64) {
	r.mu.Lock()
	r.excluded += n
	r.mu.Unlock()
}

func (r *Recorder) Note(s string) {
	r.mu.Lock()
	r.notes = append(r.notes, s)
	r.mu.Unlock()
}

func (r *Recorder) AddFuzzExecs(n int64) {
	r.mu.Lock()
	r.fuzzExecs += n
	r.mu.Unlock()
}

// FuzzMode is set by the native fuzz targets that drive a rapid property through rapid.MakeFuzz: a violation then
// carries its replay kind and the whole case (JSON) in its message, which is all that survives a fuzz worker process;
// the driver turns those lines into a replay file.
var FuzzMode bool

// Fail records a failure. It returns true when the failure is a VIOLATION (not a listed
// known finding); the caller then fails the test / rapid property.
func (r *Recorder) Fail(f *Fail, c interface{}) bool {
	raw, err := json.Marshal(c)
	if err != nil {
		raw = []byte(fmt.Sprintf("%q", fmt.Sprintf("%#v", c)))
	}
	what, isKnown := IsKnown(r.Prop, f.Sig)
	if FuzzMode && !isKnown && !strings.Contains(f.Msg, "\nVIOLATION-SIG ") {
		one := strings.Join(strings.Fields(f.Msg), " ")
		f.Msg += fmt.Sprintf("\nVIOLATION-KIND %s\nVIOLATION-SIG %s :: %s :: %s\n", r.Kind, f.Sig, one, raw)
	}
	r.mu.Lock()
	defer r.mu.Unlock()
	old := r.failures[f.Sig]
	if old == nil {
		if len(r.failures) >= 40 && !isKnown {
			// keep the table bounded; the first 40 signatures are plenty
			return true
		}
		r.failures[f.Sig] = &Failure{Sig: f.Sig, Msg: f.Msg, Kind: r.Kind, Case: raw, Count: 1, Known: isKnown, What: what}
	} else {
		old.Count++
		if len(raw) < len(old.Case) { // keep the smallest reproducer (rapid's shrunk re-run wins)
			old.Case = raw
			old.Msg = f.Msg
		}
	}
	return !isKnown
}

// Violations returns the signatures that are not known findings.
func (r *Recorder) Violations() []string {
	r.mu.Lock()
	defer r.mu.Unlock()
	var out []string
	for s, f := range r.failures {
		if !f.Known {
			out = append(out, s)
		}
	}
	sort.Strings(out)
	return out
}

func (r *Recorder) Evaluations() int64 {
	var n int64
	for i := range r.shards {
		sh := &r.shards[i]
		sh.mu.Lock()
		n += sh.evaluations
		sh.mu.Unlock()
	}
	return n
}

type partial struct {
	Prop        string           `json:"prop"`
	Test        string           `json:"test"`
	Kind        string           `json:"kind"`
	Rule        string           `json:"rule"`
	Exhaustive  bool             `json:"exhaustive"`
	Bounds      string           `json:"bounds,omitempty"`
	Evaluations int64            `json:"evaluations"`
	Trivial     int64            `json:"trivial"`
	Distinct    int64            `json:"distinct_nontrivial"`
	Capped      bool             `json:"hash_set_capped,omitempty"`
	Labels      map[string]int64 `json:"labels"`
	Samples     []interface{}    `json:"samples"`
	Failures    []*Failure       `json:"failures"`
	Excluded    int64            `json:"excluded_by_construction"`
	FuzzExecs   int64            `json:"fuzz_execs,omitempty"`
	Notes       []string         `json:"notes,omitempty"`
	WallS       float64          `json:"wall_s"`
	Shard       string           `json:"shard"`
	HashFile    string           `json:"hash_file,omitempty"`
}

// OutDir is where partial evidence goes ($VERIF_OUT, default a temp dir that nobody reads).
func OutDir() string {
	if d := os.Getenv("VERIF_OUT"); d != "" {
		return d
	}
	return ""
}

func Shard() (int, int) {
	i, _ := strconv.Atoi(os.Getenv("VERIF_SHARD"))
	n, _ := strconv.Atoi(os.Getenv("VERIF_SHARDS"))
	if n <= 0 {
		n = 1
	}
	if i < 0 || i >= n {
		i = 0
	}
	return i, n
}

// Flush writes the partial evidence file (no-op without $VERIF_OUT).
func (r *Recorder) Flush() {
	dir := OutDir()
	if dir == "" {
		return
	}
	r.mu.Lock()
	defer r.mu.Unlock()
	si, sn := Shard()
	shard := fmt.Sprintf("%d-%d", si, sn)
	labels := map[string]int64{}
	for k, v := range r.labels {
		labels[k] += v
	}
	var evaluations, trivial, distinct int64
	var samples []interface{}
	for round := 0; round < 3; round++ {
		for i := range r.shards {
			if len(r.shards[i].samples) > round && len(samples) < 12 {
				samples = append(samples, r.shards[i].samples[round])
			}
		}
	}
	for i := range r.shards {
		sh := &r.shards[i]
		sh.mu.Lock()
		evaluations += sh.evaluations
		trivial += sh.trivial
		distinct += int64(len(sh.hashes)) + sh.counted
		for k, v := range sh.labels {
			labels[k] += v
		}
		sh.mu.Unlock()
	}
	p := partial{
		Prop: r.Prop, Test: r.Test, Kind: r.Kind, Rule: r.Rule, Exhaustive: r.Exhaustive, Bounds: r.Bounds,
		Evaluations: evaluations, Trivial: trivial, Distinct: distinct, Capped: r.capped,
		Labels: labels, Samples: samples, Excluded: r.excluded, FuzzExecs: r.fuzzExecs, Notes: r.notes,
		WallS: time.Since(r.start).Seconds(), Shard: shard,
	}
	if p.Samples == nil {
		p.Samples = []interface{}{}
	}
	sigs := make([]string, 0, len(r.failures))
	for s := range r.failures {
		sigs = append(sigs, s)
	}
	sort.Strings(sigs)
	for _, s := range sigs {
		p.Failures = append(p.Failures, r.failures[s])
	}
	if p.Failures == nil {
		p.Failures = []*Failure{}
	}
	base := filepath.Join(dir, fmt.Sprintf("%s.%s", r.Test, shard))
	if sn > 1 {
		// shards of one test may overlap: persist the hash set so the driver can count the union
		hf := base + ".hashes"
		if f, err := os.Create(hf); err == nil {
			w := bufio.NewWriter(f)
			var b [8]byte
			for i := range r.shards {
				for h := range r.shards[i].hashes {
					binary.LittleEndian.PutUint64(b[:], h)
					w.Write(b[:])
				}
			}
			w.Flush()
			f.Close()
			p.HashFile = hf
		}
	}
	data, _ := json.MarshalIndent(p, "", " ")
	os.WriteFile(base+".json", data, 0o644)
}
