#!/usr/bin/env python3
"""Apply a seeded change to a scratch worktree of /repo and run checks against it.

  tools/tryseed.py <patch.diff> [--tier quick|thorough] [--props C01,C02,...] [--suite]

Creates /tmp/seedtry_<n> (git worktree of /repo HEAD), applies the patch, optionally runs the repository's
own test suite (must still pass), runs `VERIF_REPO=<worktree> ./check <ID> <tier>` for the requested
properties (default: all 20) and prints one line per property: CAUGHT / missed / inconclusive.
The worktree and its build output are removed afterwards. Never touches /repo's working tree.
"""
import json
import os
import re
import shutil
import subprocess
import sys
import tempfile

VERIF = os.path.dirname(os.path.dirname(os.path.abspath(__file__)))
ALL = ["C%02d" % i for i in range(1, 21)]


def main():
    args = sys.argv[1:]
    if not args:
        print(__doc__)
        return 2
    patch = os.path.abspath(args[0])
    tier = "quick"
    props = ALL
    suite = False
    i = 1
    while i < len(args):
        if args[i] == "--tier":
            tier = args[i + 1]
            i += 2
        elif args[i] == "--props":
            props = args[i + 1].split(",")
            i += 2
        elif args[i] == "--suite":
            suite = True
            i += 1
        else:
            i += 1
    wt = tempfile.mkdtemp(prefix="seedtry_", dir="/tmp")
    os.rmdir(wt)
    env = dict(os.environ, GOFLAGS="-mod=mod", GOPROXY="off", GOSUMDB="off", GOTOOLCHAIN="local")
    result = {"patch": patch, "tier": tier, "suite": None, "checks": {}}
    try:
        subprocess.run(["git", "-C", "/repo", "worktree", "add", "-q", "--detach", wt, "HEAD"], check=True)
        p = subprocess.run(["git", "-C", wt, "apply", patch], stdout=subprocess.PIPE, stderr=subprocess.STDOUT, text=True)
        if p.returncode != 0:
            print("PATCH DOES NOT APPLY:", p.stdout)
            return 2
        b = subprocess.run(["go", "build", "./..."], cwd=wt, env=env, stdout=subprocess.PIPE, stderr=subprocess.STDOUT, text=True)
        if b.returncode != 0:
            print("DOES NOT COMPILE:", b.stdout[-2000:])
            return 2
        if suite:
            s = subprocess.run(["go", "test", "-vet=off", "-count=1", "./..."], cwd=wt, env=env, stdout=subprocess.PIPE, stderr=subprocess.STDOUT, text=True)
            result["suite"] = "pass" if s.returncode == 0 else "FAIL"
            print("existing suite:", result["suite"])
            if s.returncode != 0:
                print(s.stdout[-3000:])
        for pid in props:
            e = dict(os.environ, VERIF_REPO=wt)
            c = subprocess.run([os.path.join(VERIF, "check"), pid, tier], cwd=VERIF, env=e, stdout=subprocess.PIPE, stderr=subprocess.STDOUT, text=True)
            sigs = re.findall(r"signature: (.*)", c.stdout)
            verdict = {0: "missed", 1: "CAUGHT"}.get(c.returncode, "inconclusive(rc=%d)" % c.returncode)
            result["checks"][pid] = {"verdict": verdict, "signatures": sigs[:6]}
            print("%s %-14s %s" % (pid, verdict, "; ".join(sigs[:3])[:300]))
            if c.returncode not in (0, 1):
                print(c.stdout[-1500:])
        print("RESULT-JSON " + json.dumps(result))
    finally:
        subprocess.run(["git", "-C", "/repo", "worktree", "remove", "--force", wt], stdout=subprocess.DEVNULL, stderr=subprocess.DEVNULL)
        shutil.rmtree(wt, ignore_errors=True)
        tag = re.sub(r"[^A-Za-z0-9]", "_", wt)
        for f in os.listdir(os.path.join(VERIF, ".build")):
            if tag in f:
                try:
                    os.remove(os.path.join(VERIF, ".build", f))
                except OSError:
                    pass
    return 0


if __name__ == "__main__":
    sys.exit(main())
