#!/usr/bin/env python3
"""Verify the seeded changes delivered by the sub-agents under /tmp/seed_out/<ID>/mut<i>.* and file the
confirmed ones under /verif/seeded/<ID>-m<i>/ (patch.diff, demo test, notes, meta.json).

For every change, in a scratch worktree of /repo HEAD:
  1. the patch applies and the library compiles,
  2. the repository's own suite still passes with the change,
  3. the demonstration fails with the change and passes without it,
then the quick checks of the target property and of related properties run against the changed tree
(VERIF_REPO, never /repo itself). Usage: tools/verify_seeds.py [ID ...] [--all-props]
"""
import json
import os
import re
import shutil
import subprocess
import sys
import tempfile

VERIF = os.path.dirname(os.path.dirname(os.path.abspath(__file__)))
SRC = "/tmp/seed_out"
ENV = dict(os.environ, GOFLAGS="-mod=mod", GOPROXY="off", GOSUMDB="off", GOTOOLCHAIN="local")
RELATED = {
    "C01": ["C02", "C19"], "C02": ["C01", "C05"], "C03": ["C06", "C08"], "C04": ["C05", "C13", "C12"], "C05": ["C16", "C13", "C02"],
    "C06": ["C03"], "C07": ["C06"], "C08": ["C03"], "C09": ["C14", "C15"], "C10": ["C05", "C18"], "C11": ["C12"], "C12": ["C11", "C15"],
    "C13": ["C05", "C16", "C04"], "C14": ["C09", "C15"], "C15": ["C12", "C03"], "C16": ["C04", "C05"], "C17": ["C13"], "C18": ["C05", "C10"],
    "C19": ["C06", "C08"], "C20": ["C06"],
}
ALL = ["C%02d" % i for i in range(1, 21)]


def run(cmd, cwd, timeout=1800):
    p = subprocess.run(cmd, cwd=cwd, env=ENV, stdout=subprocess.PIPE, stderr=subprocess.STDOUT, text=True, timeout=timeout)
    return p.returncode, p.stdout


def demo_place(demo_src):
    txt = open(demo_src).read()
    m = re.search(r"^package\s+(\w+)", txt, re.M)
    pkg = m.group(1) if m else "test_demo"
    sub = "test/io" if pkg == "test_io" else "test/demo"
    return sub, pkg


def main():
    argv = list(sys.argv[1:])
    muts = (1, 2)
    if "--muts" in argv:
        k = argv.index("--muts")
        muts = tuple(int(x) for x in argv[k + 1].split(","))
        del argv[k:k + 2]
    args = [a for a in argv if not a.startswith("--")]
    all_props = "--all-props" in argv
    ids = args or ALL
    summary = []
    for pid in ids:
        for i in muts:
            patch = os.path.join(SRC, pid, "mut%d.diff" % i)
            demo = os.path.join(SRC, pid, "mut%d_demo_test.go" % i)
            notes = os.path.join(SRC, pid, "mut%d.md" % i)
            name = "%s-m%d" % (pid, i)
            if not (os.path.exists(patch) and os.path.exists(demo)):
                summary.append((name, "missing files"))
                continue
            wt = tempfile.mkdtemp(prefix="vseed_", dir="/tmp")
            os.rmdir(wt)
            subprocess.run(["git", "-C", "/repo", "worktree", "add", "-q", "--detach", wt, "HEAD"], check=True)
            meta = {"id": name, "breaks_property": pid, "ran": []}
            ok = True
            try:
                sub, pkg = demo_place(demo)
                os.makedirs(os.path.join(wt, sub), exist_ok=True)
                dst = os.path.join(wt, sub, "zz_seed_demo_test.go")
                shutil.copy(demo, dst)
                race = ["-race"] if "-race" in open(demo).read() else []
                rc0, out0 = run(["go", "test"] + race + ["-vet=off", "-count=1", "./" + sub + "/..."], wt)
                meta["ran"].append({"cmd": "demo on the unchanged tree", "rc": rc0})
                rc, out = run(["git", "apply", patch], wt)
                if rc != 0:
                    summary.append((name, "patch does not apply: " + out[:200]))
                    continue
                rcb, outb = run(["go", "build", "./..."], wt)
                rc1, out1 = run(["go", "test"] + race + ["-vet=off", "-count=1", "./" + sub + "/..."], wt)
                meta["ran"].append({"cmd": "demo with the change", "rc": rc1})
                os.remove(dst)
                if sub == "test/demo":
                    shutil.rmtree(os.path.join(wt, sub), ignore_errors=True)
                rc2, out2 = run(["go", "test", "-vet=off", "-count=1", "./..."], wt)
                meta["ran"].append({"cmd": "go test -vet=off -count=1 ./... with the change", "rc": rc2})
                meta["compiles"] = rcb == 0
                meta["suite_passes_with_change"] = rc2 == 0
                meta["demo_passes_without_change"] = rc0 == 0
                meta["demo_fails_with_change"] = rc1 != 0
                ok = rcb == 0 and rc2 == 0 and rc0 == 0 and rc1 != 0
                if not ok:
                    summary.append((name, "NOT CONFIRMED build=%d suite=%d demo_without=%d demo_with=%d" % (rcb, rc2, rc0, rc1)))
                    print(name, "NOT CONFIRMED", (out0 if rc0 else "")[-600:], (out2 if rc2 else "")[-600:], flush=True)
                    continue
                props = [pid] + [p for p in (ALL if all_props else RELATED.get(pid, [])) if p != pid]
                if os.environ.get("VERIF_SEED_TARGET_ONLY") == "1":
                    props = [pid]
                verdicts = {}
                for p in props:
                    e = dict(os.environ, VERIF_REPO=wt)
                    c = subprocess.run([os.path.join(VERIF, "check"), p, "quick"], cwd=VERIF, env=e, stdout=subprocess.PIPE, stderr=subprocess.STDOUT, text=True)
                    sigs = re.findall(r"signature: (.*)", c.stdout)
                    verdicts[p] = {"verdict": {0: "missed", 1: "caught"}.get(c.returncode, "inconclusive"), "signatures": sigs[:4]}
                meta["quick_checks"] = verdicts
                out_dir = os.path.join(VERIF, "seeded", name)
                os.makedirs(out_dir, exist_ok=True)
                shutil.copy(patch, os.path.join(out_dir, "patch.diff"))
                shutil.copy(demo, os.path.join(out_dir, "demo_test.go"))
                if os.path.exists(notes):
                    shutil.copy(notes, os.path.join(out_dir, "notes.md"))
                    txt = open(notes).read()
                    meta["needs_to_manifest"] = "see notes.md"
                meta["demo_location"] = "%s/ (package %s); run: go test -vet=off -count=1 ./%s/..." % (sub, pkg, sub)
                meta["source"] = "independent sub-agent given only the property text and a scratch worktree"
                json.dump(meta, open(os.path.join(out_dir, "meta.json"), "w"), indent=1)
                line = " ".join("%s:%s" % (k, v["verdict"]) for k, v in verdicts.items())
                summary.append((name, "confirmed; " + line))
                print(name, "confirmed;", line, flush=True)
            finally:
                subprocess.run(["git", "-C", "/repo", "worktree", "remove", "--force", wt], stdout=subprocess.DEVNULL, stderr=subprocess.DEVNULL)
                shutil.rmtree(wt, ignore_errors=True)
                tag = re.sub(r"[^A-Za-z0-9]", "_", wt)
                for f in os.listdir(os.path.join(VERIF, ".build")):
                    if tag in f:
                        try:
                            os.remove(os.path.join(VERIF, ".build", f))
                        except OSError:
                            pass
    print("\nSUMMARY")
    for s in summary:
        print("%-8s %s" % s)


if __name__ == "__main__":
    main()
