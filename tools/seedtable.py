#!/usr/bin/env python3
"""Prints the Markdown table of seeded changes (DESIGN.md §5.2) from /verif/seeded/*/meta.json."""
import glob
import json
import os

VERIF = os.path.dirname(os.path.dirname(os.path.abspath(__file__)))

# one-line "what it needs to manifest", written from the sub-agents' notes.md
NEEDS = {
    "C01-m1": "argument counter moved to a parser field: a call nested in another call's argument whose own argument count differs from its position",
    "C01-m2": "`a <= b` evaluated as MoreEqual(b, a): operands of different types whose two conversion directions disagree (2.5 <= 2, 9 <= '10')",
    "C02-m1": "look-ahead runs past the end: input ending in a dangling IS / IS NOT (`a IS`)",
    "C02-m2": "'unchanged expression' shortcut caches failed parses: the same invalid text submitted twice to one parser",
    "C03-m1": "string index bound checked against the byte length: multi-byte string, index between rune count and byte count",
    "C03-m2": "recover only reports panics that carry an error: a user function panicking with a string / other value",
    "C04-m1": "C comment state skips the look-ahead Unread at end of input: expression input ending in a non-comment '/'",
    "C04-m2": "SetReader keeps the peeked token: HasNextToken without NextToken, then a new reader on the same instance",
    "C05-m1": "lost copy in SymbolNode.Ancestry: symbol X, sibling symbol Y, X again on one instance",
    "C05-m2": "'already compiled' shortcut: the same late-failing expression twice in a row on one parser",
    "C06-m1": "GetElement on strings checks the byte length: multi-byte string and an index past the rune count (panic)",
    "C06-m2": "`<=` on Float/Double rewritten as !(a > b): a NaN operand",
    "C07-m1": "DateTime->Integer/Long via Sub(epoch)/Second: dates further than ~292 years from 1970 saturate",
    "C07-m2": "type-safe Convert(x, Null) returns the shared variants.Empty: caller mutates the result, a later conversion to Null is wrong",
    "C08-m1": "named results of DelegatedFunction.Calculate made unnamed again: a built-in that panics (Choose(-1,..), Min(null,null)) returns (nil, nil)",
    "C08-m2": "Round computed as floor(x+0.5): negative halves, 0.49999999999999994, odd integers >= 2^52",
    "C09-m1": "CSV DecodeString strips quotes byte-wise: a non-ASCII quote symbol with decode-strings on",
    "C09-m2": "CSV symbol state reads line endings itself and merges LF LF / CR CR: an empty row or single empty field with a one-character line ending",
    "C10-m1": "parser cursor rewound only after a successful parse: a rejected template followed by a well-formed one on the same object",
    "C10-m2": "GetVariable by exact / lower-cased map lookup: a map key with upper-case letters differing from the tag spelling",
    "C11-m1": "Unread's rescan truncated at the cursor: stepping back over exactly the LF of a CRLF pair",
    "C11-m2": "Read caches the last returned character for the CR rule: an Unread followed by the Read of a lone CR / the CR of LFCR",
    "C12-m1": "Unread recomputes line/column locally with an off-by-one look-behind: a one-character token between an LF and a bare CR, or a bare CR after CRLF",
    "C12-m2": "position re-peeked on skip-comment / skip-whitespace but not on skip-unknown: an unmapped character directly before a re-created token (or Eof)",
    "C13-m1": "lost copy in SymbolNode.Ancestry: a multi-character symbol repeated after a sibling symbol",
    "C13-m2": "comment terminator scan with a star flag cleared by a second star: a block comment closed by an even run of stars (`**/`)",
    "C14-m1": "expression decoder un-doubles before stripping: a value consisting only of quote characters",
    "C14-m2": "CSV encoder skips doubling when the first quote is at index 0: a value that starts with the quote character",
    "C15-m1": "skipped token kept when the loop ends at end of input: a skippable token as the very last token",
    "C15-m2": "mustache close detection by value only: decode-strings on and a quoted '}}' inside a tag",
    "C16-m1": "DeepestRead returns at end of input without Unread: symbol of length >= 3 whose prefix is unregistered and the input ends on that prefix",
    "C16-m2": "lost copy in SymbolNode.Ancestry: sibling symbols read in the order X, Y, X",
    "C17-m1": "AddInterval skips a range 'already covered' by an older interval with the same reference although a newer narrower one lies in front",
    "C17-m2": "single-entry lookup cache not invalidated by AddInterval: lookup, re-register the same character, lookup again",
    "C18-m1": "template CreateVariables checks the exact spelling: a default variable already present in another letter case",
    "C18-m2": "dedupe set of variable names never cleared: a second expression on the same parser repeating a variable",
    "C19-m1": "Abs converts in place: Abs applied by reference to a negative Double variable overwrites it",
    "C19-m2": "calculation stack cached in the calculator: a failed evaluation followed by a good one, or two goroutines on one calculator (data race)",
    "C20-m1": "SetAsArray keeps an empty caller list with spare capacity: the variant grows in place, then the caller appends",
    "C20-m2": "type guard moved behind the array branch of Equals: an empty array compared with a non-array value",
    # round 2: changes designed to evade a harness like this one (rare values, thresholds, rare API paths)
    "C01-m3": "arguments after the 8th collected in pop order: a call with >= 10 arguments to an order-sensitive function",
    "C01-m4": "ParseString skips re-parsing when the new text is EqualFold-equal to the last one: same calculator, expression differing only in the letter case of a string literal",
    "C02-m3": "Word tokens spelling a keyword re-typed as Keyword: quoted identifiers such as \"null\", \"is\", \"not\"",
    "C02-m4": "the parser's private tokenizer set to skip unknown characters: a code point >= U+10000 or U+FFFF outside a literal is silently dropped",
    "C03-m3": "function parameters in a fixed 16-slot buffer: a call with >= 17 arguments panics in the calculator",
    "C03-m4": "keyword lookup with EqualFold while the tokenizer uses ToUpper: LIKE spelled with dotless i (U+0131) panics with index -1",
    "C04-m3": "NewStringScanner drops a leading U+FEFF: input starting with a byte order mark",
    "C04-m4": "whitespace collected in a 16-rune chunk that drops the rune which fills it: a blank run of >= 17 characters",
    "C05-m3": "Lookup moves the matching interval to the front (changes override priority): overlapping intervals above U+00FF (non-Latin CSV separator) and an earlier non-Latin input",
    "C05-m4": "name index for collections > 32 entries registers appended names without upper-casing: a calculator that accumulated >= 33 variables, then a new lower-case name",
    "C06-m3": "Equal on Float/Double with a relative 2^-52 tolerance: two doubles exactly one ulp apart",
    "C06-m4": "MoreEqual / LessEqual compare time.Time with ==: the same instant in another zone / as Unix seconds",
    "C07-m3": "type-safe Integer/Long -> Float via float64 (double rounding): |v| > 2^53 with a bit pattern on a float32 tie",
    "C07-m4": "Integer/Long -> DateTime counted from local midnight 1970: a process whose local zone has a UTC offset",
    "C08-m3": "DayOfWeek of the UTC date: a date-time whose own calendar day differs from the UTC day",
    "C08-m4": "Rnd = float32(rand.Float64()): returns exactly 1.0 with probability 2^-25 per draw",
    "C09-m3": "NewStringScanner drops a leading U+FEFF: first field of the first row starts with it",
    "C09-m4": "quoted field collected in 256-rune chunks dropping every 257th character: a quoted field of >= 257 characters",
    "C10-m3": "GetVariable pre-filters keys by byte length: a name with a letter whose case mapping changes the UTF-8 length (U+023A / U+2C65)",
    "C10-m4": "EvaluateWithVariables falls back to the defaults for len(map) == 0: non-empty defaults and an explicit empty map",
    "C11-m3": "Unread rescans from a checkpoint every 1024 characters without the preceding character: LF CR straddling offset 1024*k and a slow-path Unread behind it",
    "C11-m4": "isLine uses a 256-entry table indexed with ch & 0xff: code points whose low byte is 0x0A / 0x0D (U+4E0D, U+010D, U+200D ...)",
    "C12-m3": "Unread's recount from a 1024-character checkpoint counts the checkpoint character twice: input > 1024 characters and an unread line break behind it",
    "C12-m4": "U+2028 / U+2029 added to isLine but not to isColumn: one of them right after a token that looks ahead and unreads",
    "C13-m3": "expression quote state collects in 64-rune chunks dropping the 65th: a quoted literal of >= 65 characters",
    "C13-m4": "IsDigit = unicode.IsDigit: a number directly followed by a lexeme starting with a non-ASCII decimal digit",
    "C14-m3": "scanner content decoded in 4096-byte pieces: input > 4 KB with a multi-byte character across a piece boundary",
    "C14-m4": "CSV EncodeString drops utf8.RuneError: a value containing U+FFFD",
    "C15-m3": "skip loop bounded to 64 iterations returns the last skipped token: >= 64 skipped tokens inside one NextToken call",
    "C15-m4": "precedence slip in the mustache close test: decode-strings on and a quoted string whose content is exactly }}}",
    "C16-m3": "AddInterval shifts the interval list upwards in place: a node with >= 3 distinct child characters above U+00FF",
    "C16-m4": "children kept in a 16-entry list, the 17th child lost when switching to the map: > 16 symbols sharing a prefix",
    "C17-m3": "interval bounds stored as uint16 and probes narrowed: a code point >= U+10000 whose low 16 bits fall into a registered range",
    "C17-m4": "compaction of 'hidden' intervals after > 128 registrations with a wrong hidden test: a wide old interval whose ends were re-registered separately, probe in the gap",
    "C18-m3": "ASCII case folding with |0x20 on all bytes: names that differ in a punctuation pair such as [ / { or ^ / ~",
    "C18-m4": "dedupe index built at the 17th distinct name forgets that name: >= 17 distinct variables with the 17th repeated",
    "C19-m3": "one package-level symbol table shared by all expression tokenizers, lazily filled: separate calculators racing on the first use of a symbol in the process",
    "C19-m4": "per-calculator memo of resolved functions keyed by name only: one calculator evaluated with two different function lists",
    "C20-m3": "SetAsArray keeps an empty non-nil caller list with spare capacity: variant grows in place, caller appends afterwards",
    "C20-m4": "cycle guard in Equals never un-marks visited arrays: the same array object twice inside the receiver",
    # round 3: interactions of features / options, rarely used entry points and setters, configuration order, error paths
    "C01-m5": "decode-strings applied to every Word token: an unquoted identifier whose first and last characters coincide (tot, test) is renamed",
    "C01-m6": "Word tokens looked up in the keyword / operator table first: quoted identifiers spelling a keyword (\"in\", \"true\")",
    "C02-m5": "Keyword and Word cases merged in the lexical pass: a quoted identifier spelling a keyword or operator",
    "C02-m6": "ParseTokens cuts the list at the first Eof token: a token list with an end-of-input token in the middle",
    "C03-m5": "default variables allocated lazily, one reader uses the raw field: SetAutoVariables(false) before the first expression, then Evaluate()",
    "C03-m6": "ClearValues stores nil instead of a Null variant: evaluation after ClearValues returns (nil, nil) or panics",
    "C04-m5": "DeepestRead returns at end of input without Unread: a user-added symbol with an unregistered prefix, input ending inside it",
    "C04-m6": "C++ comment state skips the look-ahead Unread at end of input: CppCommentState plugged in for '/', input ending in '/'",
    "C05-m5": "mustache tokenizer detects a new input by scanner identity: the same scanner object rewound and fed again",
    "C05-m6": "Ceil / Floor / Round write into the converted operand: a Double variable, then a different expression reading it",
    "C06-m5": "DateTime = / <> compare at millisecond resolution: two instants inside one millisecond",
    "C06-m6": "fast path 1 << exponent for base 2: 2 ^ 63 comes out negative",
    "C07-m5": "overflow guard of milliseconds -> TimeSpan clamps one second too early: values within 854 ms of the limit",
    "C07-m6": "DateTime -> Integer/Long through UnixNano when there is a fraction: far dates with a sub-second part",
    "C08-m5": "constant folding of built-in calls at parse time with the parse-time manager: SetVariantOperations after SetExpression",
    "C08-m6": "Rnd = float32(rand.Float64()): exactly 1.0 with probability 2^-25 per draw",
    "C09-m5": "only the characters of the configured end-of-line string go to the symbol state: SetEndOfLine before the other setters, text with another line ending",
    "C09-m6": "setters store the value before validating it: a rejected setter call followed by an accepted call of the other setter",
    "C10-m5": "CreateVariables checks the exact key: non-empty defaults in another letter case set before the template",
    "C10-m6": "an end tag with keyword and name loses its name: {{/if other}} closes any section",
    "C11-m5": "lazy recount after Unread, PeekColumn left out: PeekColumn called before any other getter",
    "C11-m6": "bulk UnreadMany does not invalidate the remembered previous-line column: UnreadMany(>=3) across a break, then single Unreads over an earlier break",
    "C12-m5": "Unread restores the column from a one-slot memo: two line ends unread in a row (direct scanner use; not reachable through the built-in states - caught by C11)",
    "C12-m6": "the 'missing )' error of a call quotes the function name's position instead of the offending token's",
    "C13-m5": "AddInterval ignores a nil reference above U+00FF: SetWordChars(range, false) above U+0100 has no effect",
    "C13-m6": "DeepestRead returns at end of input without Unread: user symbol '...' and input ending in '..'",
    "C14-m5": "SetFieldSeparators rebuilds the word state with the default quotes: custom quotes set first, literal behind unquoted text",
    "C14-m6": "SetQuoteSymbols stores the rejected value: rejected call, then an accepted SetFieldSeparators",
    "C15-m5": "whitespace fast path under merge-whitespaces uses a hard-coded blank range: customised whitespace table",
    "C15-m6": "mustache close detection by value only (after the options were applied): decode-strings and a quoted '}}'",
    "C16-m5": "fast path in the expression symbol state keyed to the first characters of the default symbols: a symbol added later with another first character",
    "C16-m6": "valid flag packed into bit 0x1000 of the token type: a symbol registered with a type that has that bit set",
    "C17-m5": "adjoining registrations with the same reference merged using ==: references of non-comparable types panic",
    "C17-m6": "state setters rewrite the character table, nil matches every empty entry: ranges configured first, then a SetXxxState on an empty slot",
    "C18-m5": "ParseTokens re-composes the text and re-parses it: string constants and quoted identifiers lose their quotes on the token entry",
    "C18-m6": "ClearValues clears the value objects in place: the variant the caller had added is wiped",
    "C19-m5": "Rnd / Random draw from a per-collection rand.Rand: concurrent evaluations of one calculator calling Rnd() race",
    "C19-m6": "the calculator appends the position to a user function's error object in place: a shared error returned twice",
    "C20-m5": "SetAsDateTime strips the monotonic clock reading: a time.Time read from the clock",
    "C20-m6": "SetByIndex fills a gap with one shared Null object: changing one filler in place changes the others",
}


def main():
    rows = []
    for f in sorted(glob.glob(os.path.join(VERIF, "seeded", "*", "meta.json"))):
        m = json.load(open(f))
        checks = m.get("quick_checks", {})
        caught = [k for k, v in checks.items() if v["verdict"] == "caught"]
        missed = [k for k, v in checks.items() if v["verdict"] == "missed"]
        sig = ""
        t = checks.get(m["breaks_property"])
        if t and t["signatures"]:
            sig = t["signatures"][0]
        rows.append((m["id"], NEEDS.get(m["id"], m.get("needs_to_manifest", "")), ", ".join(caught) or "-", ", ".join(missed) or "-", sig))
    print("| id | needs to manifest | caught by (quick) | run but silent | first signature of the target check |")
    print("|---|---|---|---|---|")
    for r in rows:
        print("| %s | %s | %s | %s | `%s` |" % r)


if __name__ == "__main__":
    main()
