#!/usr/bin/env python3
"""Prints the Markdown table of seeded changes (DESIGN.md §5.2) from /verif/seeded/*/meta.json."""
import glob
import json
import os

VERIF = os.path.dirname(os.path.dirname(os.path.abspath(__file__)))

# one-line "what it needs to manifest", written from the sub-agents' notes.md
NEEDS = {
    "C01-m1": "argument counter moved to a parser field: a call nested in another call's argument whose own argument count differs from its position",
    "C01-m2": "`a <= b` evaluated as MoreEqual(b, a): operands of different types whose two conversion directions disagree (2.5 <= 2, 9 <= '10')",
    "C02-m1": "look-ahead runs past the end: input ending in a dangling IS / IS NOT (`a IS`)",
    "C02-m2": "'unchanged expression' shortcut caches failed parses: the same invalid text submitted twice to one parser",
    "C03-m1": "string index bound checked against the byte length: multi-byte string, index between rune count and byte count",
    "C03-m2": "recover only reports panics that carry an error: a user function panicking with a string / other value",
    "C04-m1": "C comment state skips the look-ahead Unread at end of input: expression input ending in a non-comment '/'",
    "C04-m2": "SetReader keeps the peeked token: HasNextToken without NextToken, then a new reader on the same instance",
    "C05-m1": "lost copy in SymbolNode.Ancestry: symbol X, sibling symbol Y, X again on one instance",
    "C05-m2": "'already compiled' shortcut: the same late-failing expression twice in a row on one parser",
    "C06-m1": "GetElement on strings checks the byte length: multi-byte string and an index past the rune count (panic)",
    "C06-m2": "`<=` on Float/Double rewritten as !(a > b): a NaN operand",
    "C07-m1": "DateTime->Integer/Long via Sub(epoch)/Second: dates further than ~292 years from 1970 saturate",
    "C07-m2": "type-safe Convert(x, Null) returns the shared variants.Empty: caller mutates the result, a later conversion to Null is wrong",
    "C08-m1": "named results of DelegatedFunction.Calculate made unnamed again: a built-in that panics (Choose(-1,..), Min(null,null)) returns (nil, nil)",
    "C08-m2": "Round computed as floor(x+0.5): negative halves, 0.49999999999999994, odd integers >= 2^52",
    "C09-m1": "CSV DecodeString strips quotes byte-wise: a non-ASCII quote symbol with decode-strings on",
    "C09-m2": "CSV symbol state reads line endings itself and merges LF LF / CR CR: an empty row or single empty field with a one-character line ending",
    "C10-m1": "parser cursor rewound only after a successful parse: a rejected template followed by a well-formed one on the same object",
    "C10-m2": "GetVariable by exact / lower-cased map lookup: a map key with upper-case letters differing from the tag spelling",
    "C11-m1": "Unread's rescan truncated at the cursor: stepping back over exactly the LF of a CRLF pair",
    "C11-m2": "Read caches the last returned character for the CR rule: an Unread followed by the Read of a lone CR / the CR of LFCR",
    "C12-m1": "Unread recomputes line/column locally with an off-by-one look-behind: a one-character token between an LF and a bare CR, or a bare CR after CRLF",
    "C12-m2": "position re-peeked on skip-comment / skip-whitespace but not on skip-unknown: an unmapped character directly before a re-created token (or Eof)",
    "C13-m1": "lost copy in SymbolNode.Ancestry: a multi-character symbol repeated after a sibling symbol",
    "C13-m2": "comment terminator scan with a star flag cleared by a second star: a block comment closed by an even run of stars (`**/`)",
    "C14-m1": "expression decoder un-doubles before stripping: a value consisting only of quote characters",
    "C14-m2": "CSV encoder skips doubling when the first quote is at index 0: a value that starts with the quote character",
    "C15-m1": "skipped token kept when the loop ends at end of input: a skippable token as the very last token",
    "C15-m2": "mustache close detection by value only: decode-strings on and a quoted '}}' inside a tag",
    "C16-m1": "DeepestRead returns at end of input without Unread: symbol of length >= 3 whose prefix is unregistered and the input ends on that prefix",
    "C16-m2": "lost copy in SymbolNode.Ancestry: sibling symbols read in the order X, Y, X",
    "C17-m1": "AddInterval skips a range 'already covered' by an older interval with the same reference although a newer narrower one lies in front",
    "C17-m2": "single-entry lookup cache not invalidated by AddInterval: lookup, re-register the same character, lookup again",
    "C18-m1": "template CreateVariables checks the exact spelling: a default variable already present in another letter case",
    "C18-m2": "dedupe set of variable names never cleared: a second expression on the same parser repeating a variable",
    "C19-m1": "Abs converts in place: Abs applied by reference to a negative Double variable overwrites it",
    "C19-m2": "calculation stack cached in the calculator: a failed evaluation followed by a good one, or two goroutines on one calculator (data race)",
    "C20-m1": "SetAsArray keeps an empty caller list with spare capacity: the variant grows in place, then the caller appends",
    "C20-m2": "type guard moved behind the array branch of Equals: an empty array compared with a non-array value",
}


def main():
    rows = []
    for f in sorted(glob.glob(os.path.join(VERIF, "seeded", "*", "meta.json"))):
        m = json.load(open(f))
        checks = m.get("quick_checks", {})
        caught = [k for k, v in checks.items() if v["verdict"] == "caught"]
        missed = [k for k, v in checks.items() if v["verdict"] == "missed"]
        sig = ""
        t = checks.get(m["breaks_property"])
        if t and t["signatures"]:
            sig = t["signatures"][0]
        rows.append((m["id"], NEEDS.get(m["id"], m.get("needs_to_manifest", "")), ", ".join(caught) or "-", ", ".join(missed) or "-", sig))
    print("| id | needs to manifest | caught by (quick) | run but silent | first signature of the target check |")
    print("|---|---|---|---|---|")
    for r in rows:
        print("| %s | %s | %s | %s | `%s` |" % r)


if __name__ == "__main__":
    main()
