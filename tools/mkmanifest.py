#!/usr/bin/env python3
"""Regenerates /verif/MANIFEST.json from the table below (run after adding a property)."""
import json
import os

VERIF = os.path.dirname(os.path.dirname(os.path.abspath(__file__)))

# id -> (design section, technique, level text, level note)
CLAIMED = {
    "C04": ("DESIGN.md §3 C04",
            "exhaustive small-scope enumeration + rapid random strings + native coverage-guided fuzzing, round-trip oracle (concat(token values) == input)",
            "Generated-input search with a round-trip oracle: every string up to a bounded length over a 23-symbol alphabet that has one representative per tokenizer state class and look-ahead trigger (exhaustive), random longer strings over all of Unicode, and (thorough) coverage-guided byte fuzzing, for all four tokenizers with every option off. Held on everything explored; not a proof.",
            "Trusts Go's []rune conversion as the definition of 'the input's characters'; a defect keyed to one code point outside the class representatives and the random/fuzzed sample would be missed."),
}

CLAIMED.update({
    "C11": ("DESIGN.md §3 C11",
            "model-based testing: exhaustive operation sequences over small contents + rapid random histories against an integer-position reference model and a forward-scan differential",
            "Every content over {x, LF, CR} up to length 5 x every operation sequence of a fixed depth (6 quick, 7 thorough) is executed against a cursor model; line/column are compared after every step with an independently written coordinate fold and with a fresh forward scan of the real scanner. Random longer contents and histories on top. Held on everything explored.",
            "At end of input the statement ('peek = after next read') and the convention C12 relies on (one column past) differ; both are admitted there, everywhere else the peeked coordinates are asserted exactly."),
    "C12": ("DESIGN.md §3 C12",
            "exhaustive small-scope enumeration + rapid multi-line inputs, reference oracle: forward-scan coordinates of the first character of the base token each token aligns to",
            "All strings up to length 4 over a 19-symbol alphabet x 16 (quick) / 128 (thorough) option sets x 4 tokenizers, plus random multi-line inputs with every line-break style under random option sets; each token's position is compared with the reference coordinates of its first character, Eof one column past the last character.",
            "Token offsets are derived from the option-free segmentation (C04) and the C15 aligner; an input whose option run cannot be aligned is reported under an 'unalignable' signature."),
    "C15": ("DESIGN.md §3 C15",
            "exhaustive small-scope enumeration over all 128 option sets + rapid fragment-built inputs, reference option semantics (monotone alignment with prescribed drops/rewrites)",
            "All strings up to length 3 (quick) / 4 (thorough) over an 18-symbol alphabet x all 128 option sets x 4 tokenizers, plus random fragment-built inputs; the option run must be the option-free run with whole tokens dropped (only when their skip option is on) or rewritten exactly as prescribed.",
            "The decoded value of an unterminated literal is not constrained (no property fixes it); which of two adjacent blanks survives is not constrained."),
})

PENDING_REASON = "check under construction in this session; not claimed until its machinery is committed and silent on the unchanged tree"


def main():
    props = [json.loads(l) for l in open(os.path.join(VERIF, "properties.jsonl"))]
    checks = []
    na = []
    for p in props:
        pid = p["id"]
        if pid in CLAIMED:
            ref, tech, text, note = CLAIMED[pid]
            checks.append({
                "property_id": pid,
                "quick_cmd": "./check %s quick" % pid,
                "thorough_cmd": "./check %s thorough" % pid,
                "evidence_file": "/verif/evidence/%s.json" % pid,
                "replay_cmd_template": "./check %s --replay {path}" % pid,
                "engine": "pbt",
                "level_claimed": {"category": "exploration", "text": text, "design_ref": ref},
                "level_note": note,
                "technique": tech,
            })
        else:
            na.append({"property_id": pid, "reason": PENDING_REASON})
    manifest = {
        "version": 1,
        "setup_cmd": "./check --build",
        "hooks": {
            "guard": "verif",
            "enable": "no hooks are needed: every observation point of every property is public API; the harness is an external Go module that imports /repo through a replace directive, so each check rebuilds from /repo's working tree",
            "baseline_off_cmd": "cd /repo && GOFLAGS=-mod=mod GOPROXY=off GOSUMDB=off go test -vet=off -count=1 ./...",
            "source_commits": [],
            "add_only": True,
        },
        "engines": [{
            "name": "pbt",
            "path": "/verif/pbt",
            "serves_properties": sorted(CLAIMED),
            "kind_free_text": "Go test module (pgregory.net/rapid v1.3.0 + deterministic exhaustive enumerators + native go fuzzing) with independent reference models; driver /verif/check",
        }],
        "checks": checks,
        "not_applicable": na,
        "notes": "Property-based testing and fuzzing only. KNOWN_FINDINGS.txt lists fixed and recorded defects. VERIF_SEED selects the rapid PRNG value; exhaustive enumerations are seed independent.",
    }
    json.dump(manifest, open(os.path.join(VERIF, "MANIFEST.json"), "w"), indent=1)
    print("claimed", len(checks), "pending", len(na))


if __name__ == "__main__":
    main()
