#!/usr/bin/env python3
"""Regenerates the generated tables inside DESIGN.md (between <!-- NAME:BEGIN --> / <!-- NAME:END --> markers):
AUTHOR_TABLE from .build/author_mutants.json, SEED_TABLE from seeded/*/meta.json, THOROUGH_TABLE from a log file
given as argument (lines 'OK property=... tier=thorough ... evaluations=N wall=S')."""
import json
import os
import re
import subprocess
import sys

VERIF = os.path.dirname(os.path.dirname(os.path.abspath(__file__)))


def replace(s, name, body):
    b, e = "<!-- %s:BEGIN -->" % name, "<!-- %s:END -->" % name
    if b not in s:
        s = s.replace("@%s@" % name, b + "\n" + e)
    i, j = s.index(b), s.index(e)
    return s[:i] + b + "\n" + body.strip("\n") + "\n" + s[j:]


def main():
    p = os.path.join(VERIF, "DESIGN.md")
    s = open(p).read()
    am = os.path.join(VERIF, ".build", "author_mutants.json")
    if os.path.exists(am):
        rows = json.load(open(am))
        body = "| mutation | suite | checks |\n|---|---|---|\n" + "\n".join("| %s | %s | %s |" % (r[0], r[1], r[2]) for r in rows)
        s = replace(s, "AUTHOR_TABLE", body)
    seed = subprocess.run([sys.executable, os.path.join(VERIF, "tools", "seedtable.py")], stdout=subprocess.PIPE, text=True).stdout
    s = replace(s, "SEED_TABLE", seed)
    if len(sys.argv) > 1 and os.path.exists(sys.argv[1]):
        rows = re.findall(r"OK property=(C\d+) tier=thorough seed=\d+ evaluations=(\d+) wall=([\d.]+)s", open(sys.argv[1]).read())
        body = "\n\n| property | cases | seconds |\n|---|---|---|\n" + "\n".join("| %s | %s | %s |" % r for r in rows)
        s = replace(s, "THOROUGH_TABLE", body)
    open(p, "w").write(s)


if __name__ == "__main__":
    main()
