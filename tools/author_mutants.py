#!/usr/bin/env python3
"""Author-side sensitivity mutations (DESIGN.md §3 'Sensitivity' lists): each is applied to a scratch worktree
of /repo, the repository's own suite is run, then the named checks. Prints a table. Not the seeded changes
of /verif/seeded (those come from independent sub-agents)."""
import json
import os
import subprocess
import sys
import tempfile

VERIF = os.path.dirname(os.path.dirname(os.path.abspath(__file__)))

M = [
    # (name, file, old, new, props)
    ("C01-swap-operands-sub", "calculator/ExpressionCalculator.go", "result, err := c.variantOperations.Sub(value1, value2)", "result, err := c.variantOperations.Sub(value2, value1)", "C01"),
    ("C01-level4-once", "calculator/parsers/ExpressionParser.go", "\t\t\tc.addTokenToResult(token.Type(), variants.Empty, token.Line(), token.Column())\n\t\t\tcontinue\n\t\t}\n\t\tbreak\n\t}\n\n\treturn nil\n}\n\n// Performs a syntax analysis at level 5.", "\t\t\tc.addTokenToResult(token.Type(), variants.Empty, token.Line(), token.Column())\n\t\t}\n\t\tbreak\n\t}\n\n\treturn nil\n}\n\n// Performs a syntax analysis at level 5.", "C01,C02"),
    ("C01-reverse-params", "calculator/ExpressionCalculator.go", "parameters = append([]*variants.Variant{stack.Pop()}, parameters...)", "parameters = append(parameters, stack.Pop())", "C01,C08"),
    ("C02-no-leftover-check", "calculator/parsers/ExpressionParser.go", "\t\tif c.hasMoreTokens() {\n\t\t\ttoken := c.getCurrentToken()\n\t\t\terr = errors.NewSyntaxError(\"\", errors.ErrErrorNear", "\t\tif false && c.hasMoreTokens() {\n\t\t\ttoken := c.getCurrentToken()\n\t\t\terr = errors.NewSyntaxError(\"\", errors.ErrErrorNear", "C02,C01"),
    ("C03-pop-empty-stack", "calculator/ExpressionCalculator.go", "\tif stack.Length() != 1 {", "\tif stack.Length() > 1 {", "C03"),
    ("C04-drop-unread", "tokenizers/generic/SymbolNode.go", "\tif !c.valid && c.parent != nil {\n\t\tscanner.Unread()", "\tif !c.valid && c.parent != nil {", "C04,C16,C13"),
    ("C05-keep-next-token", "tokenizers/AbstractTokenizer.go", "\tc.Scanner = value\n\tc.NextTokenValue = nil\n", "\tc.Scanner = value\n", "C05"),
    ("C05-keep-varnames", "calculator/parsers/ExpressionParser.go", "\tc.currentTokenIndex = 0\n\tc.variableNames = []string{}\n}", "\tc.currentTokenIndex = 0\n}", "C05,C18"),
    ("C06-more-long-ge", "variants/AbstractVariantOperations.go", "result.SetAsBoolean(value1.AsLong() > value2.AsLong())", "result.SetAsBoolean(value1.AsLong() >= value2.AsLong())", "C06"),
    ("C06-mul-no-null", "variants/AbstractVariantOperations.go", "func (c *AbstractVariantOperations) Mul(\n\tvalue1 *Variant, value2 *Variant) (*Variant, error) {\n\n\tresult := EmptyVariant()\n\n\t// Processes VariantType.Null values.\n\tif value1.Type() == Null || value2.Type() == Null {", "func (c *AbstractVariantOperations) Mul(\n\tvalue1 *Variant, value2 *Variant) (*Variant, error) {\n\n\tresult := EmptyVariant()\n\n\t// Processes VariantType.Null values.\n\tif value1.Type() == Null {", "C06,C03"),
    ("C07-int-timespan-seconds", "variants/TypeUnsafeVariantOperations.go", "result.SetAsTimeSpan(time.Duration(value.AsInteger()) * time.Millisecond)", "result.SetAsTimeSpan(time.Duration(value.AsInteger()) * time.Second)", "C07,C06"),
    ("C07-safe-double-float", "variants/TypeSafeVariantOperations.go", "\tcase Double:\n\t\tbreak\n", "\tcase Double:\n\t\tif newType == Float {\n\t\t\tr := EmptyVariant()\n\t\t\tr.SetAsFloat(float32(value.AsDouble()))\n\t\t\treturn r, nil\n\t\t}\n", "C07"),
    ("C08-floor-ceil", "calculator/functions/DefaultFunctionCollection.go", "result := variants.VariantFromDouble(math.Floor(value.AsDouble()))", "result := variants.VariantFromDouble(math.Ceil(value.AsDouble()))", "C08"),
    ("C08-case-sensitive-find", "calculator/functions/FunctionCollection.go", "\tname = strings.ToUpper(name)\n\tfor i, f := range c.functions {\n\t\tif strings.ToUpper(f.Name()) == name {", "\tfor i, f := range c.functions {\n\t\tif f.Name() == name || strings.ToUpper(f.Name()) == name {", "C08,C18"),
    ("C09-no-lfcr", "csv/CsvSymbolState.go", "\tc.Add(\"\\n\\r\", tokenizers.Eol)\n", "", "C09"),
    ("C10-render-empty-section", "mustache/MustacheTemplate.go", "\treturn (*value) != \"\"\n", "\treturn true\n", "C10"),
    ("C10-skip-slash-escape", "mustache/MustacheTemplate.go", "\tvalue = strings.ReplaceAll(value, \"/\", \"\\\\/\")\n", "", "C10"),
    ("C11-peek-column-crlf", "io/StringScanner.go", "\tif charAt == '\\r' && (charBefore == '\\n' || charAfter == '\\n') {", "\tif charAt == '\\r' && (charAfter == '\\n') {", "C11,C12"),
    ("C12-word-pos-before-read", "tokenizers/generic/GenericWordState.go", "\tnextSymbol := scanner.Read()\n\tline := scanner.Line()\n\tcolumn := scanner.Column()\n\n\tfor c.mp.Lookup(nextSymbol) != nil {", "\tline := scanner.Line()\n\tcolumn := scanner.Column()\n\tnextSymbol := scanner.Read()\n\n\tfor c.mp.Lookup(nextSymbol) != nil {", "C12"),
    ("C13-keywords-case-sensitive", "calculator/tokenizers/ExpressionWordState.go", "if keyword == strings.ToUpper(token.Value()) {", "if keyword == token.Value() || keyword == strings.ToUpper(token.Value()[:1])+token.Value()[1:] {", "C13,C01"),
    ("C14-replace-first-only", "csv/CsvQuoteState.go", "value = strings.ReplaceAll(value, quoteString+quoteString, quoteString)", "value = strings.Replace(value, quoteString+quoteString, quoteString, 1)", "C14,C09"),
    ("C15-unify-words", "tokenizers/AbstractTokenizer.go", "(token.Type() == Integer || token.Type() == Float || token.Type() == HexDecimal) {", "(token.Type() == Integer || token.Type() == Float || token.Type() == HexDecimal || (token.Type() == Word && len(token.Value()) > 3)) {", "C15"),
    ("C16-all-valid", "tokenizers/generic/SymbolNode.go", "\t\tchildNode := c.EnsureChildWithChar(value[0])\n\t\tchildNode.AddDescendantLine(value[1:], tokenType)", "\t\tchildNode := c.EnsureChildWithChar(value[0])\n\t\tchildNode.valid = true\n\t\tchildNode.AddDescendantLine(value[1:], tokenType)", "C16"),
    ("C17-append-intervals", "tokenizers/utilities/CharReferenceMap.go", "\t\tc.otherIntervals = append(\n\t\t\t[]*CharReferenceInterval{NewCharReferenceInterval(start, end, reference)},\n\t\t\tc.otherIntervals...)", "\t\tc.otherIntervals = append(c.otherIntervals, NewCharReferenceInterval(start, end, reference))", "C17"),
    ("C18-function-names-as-vars", "calculator/parsers/ExpressionParser.go", "\t} else if primitiveToken.Type() == Function {\n\t\tc.moveToNextToken()\n", "\t} else if primitiveToken.Type() == Function {\n\t\tc.variableNames = append(c.variableNames, primitiveToken.Value().AsString())\n\t\tc.moveToNextToken()\n", "C18"),
    ("C18-removebyname-last", "calculator/variables/VariableCollection.go", "func (c *VariableCollection) RemoveByName(name string) {\n\tindex := c.FindIndexByName(name)", "func (c *VariableCollection) RemoveByName(name string) {\n\tindex := -1\n\tfor i, v := range c.variables {\n\t\tif strings.EqualFold(v.Name(), name) {\n\t\t\tindex = i\n\t\t}\n\t}", "C18"),
    ("C19-add-writes-operand", "variants/AbstractVariantOperations.go", "\tcase Integer:\n\t\tresult.SetAsInteger(value1.AsInteger() + value2.AsInteger())\n\t\treturn result, nil", "\tcase Integer:\n\t\tvalue1.SetAsInteger(value1.AsInteger() + value2.AsInteger())\n\t\treturn value1, nil", "C19,C06"),
    ("C20-setasarray-keeps-slice", "variants/Variant.go", "\tc.typ = Array\n\ta := make([]*Variant, len(value))\n\tcopy(a, value)\n\tc.value = a\n", "\tc.typ = Array\n\tc.value = value\n", "C20"),
    ("C20-int32-long", "variants/Variant.go", "\t\tc.value = int(_val)\n\t\tc.typ = Integer", "\t\tc.value = int64(_val)\n\t\tc.typ = Long", "C20"),
]


def main():
    only = set(sys.argv[1:])
    env = dict(os.environ, GOFLAGS="-mod=mod", GOPROXY="off", GOSUMDB="off", GOTOOLCHAIN="local")
    rows = []
    for name, path, old, new, props in M:
        if only and name not in only and not any(name.startswith(o) for o in only):
            continue
        wt = tempfile.mkdtemp(prefix="amut_", dir="/tmp")
        os.rmdir(wt)
        subprocess.run(["git", "-C", "/repo", "worktree", "add", "-q", "--detach", wt, "HEAD"], check=True)
        try:
            fp = os.path.join(wt, path)
            src = open(fp).read()
            if src.count(old) != 1:
                rows.append((name, "PATTERN x%d" % src.count(old), "", ""))
                continue
            open(fp, "w").write(src.replace(old, new))
            diff = subprocess.run(["git", "-C", wt, "diff"], stdout=subprocess.PIPE, text=True).stdout
            dpath = os.path.join(VERIF, ".build", "amut_%s.diff" % name)
            os.makedirs(os.path.dirname(dpath), exist_ok=True)
            open(dpath, "w").write(diff)
        finally:
            subprocess.run(["git", "-C", "/repo", "worktree", "remove", "--force", wt], stdout=subprocess.DEVNULL, stderr=subprocess.DEVNULL)
        p = subprocess.run([os.path.join(VERIF, "tools", "tryseed.py"), dpath, "--suite", "--props", props], stdout=subprocess.PIPE, stderr=subprocess.STDOUT, text=True, env=env)
        out = p.stdout
        res = [l for l in out.splitlines() if l.startswith("RESULT-JSON ")]
        if not res:
            rows.append((name, "ERROR", out[-400:], ""))
            continue
        r = json.loads(res[0][len("RESULT-JSON "):])
        verdicts = " ".join("%s:%s" % (k, v["verdict"]) for k, v in r["checks"].items())
        rows.append((name, r["suite"], verdicts, ""))
        print("%-32s suite=%-5s %s" % (name, r["suite"], verdicts), flush=True)
    path = os.path.join(VERIF, ".build", "author_mutants.json")
    if only and os.path.exists(path):
        # a partial run replaces its own rows only
        done = {r[0]: r for r in rows}
        rows = [done.pop(r[0], r) for r in json.load(open(path))] + list(done.values())
    json.dump(rows, open(path, "w"), indent=1)


if __name__ == "__main__":
    main()
